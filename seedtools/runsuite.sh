#!/bin/bash
# runsuite.sh <worktree-dir> : runs the repository's full existing test suite in that worktree (serialised
# machine-wide because the suite's test servers listen on fixed ports). Prints a PASS/FAIL summary.
export GOFLAGS=-mod=mod GOPROXY=off GOSUMDB=off GOTOOLCHAIN=local
dir=${1:?worktree dir}
exec 8>/verif/work/suite.lock; flock 8
cd "$dir" && go build ./... && go test -p 1 -mod=mod -vet=off -count=1 -timeout 25m ./... 2>&1 | tail -15
