// Package lin checks recorded client-side histories of string commands for
// linearizability with porcupine v1.3.0 against a small sequential model.
package lin

import (
	"fmt"
	"sort"
	"strconv"
	"strings"
	"time"

	"github.com/anishathalye/porcupine"
	"verif/model"
)

// In is an operation as issued by a client.
type In struct {
	Op   string // GET SET SETNX GETSET INCR DECRBY APPEND DEL MSETNX
	Key  string
	Arg  string
	Key2 string // MSETNX
	Arg2 string
}

// Out is the decoded reply.
type Out struct {
	Kind string // nil str int err
	S    string
	I    int64
}

func (o Out) String() string {
	switch o.Kind {
	case "nil":
		return "nil"
	case "str":
		return strconv.Quote(o.S)
	case "int":
		return strconv.FormatInt(o.I, 10)
	}
	return "error"
}

func (i In) String() string {
	s := i.Op + " " + i.Key
	if i.Arg != "" {
		s += " " + i.Arg
	}
	if i.Key2 != "" {
		s += " " + i.Key2 + " " + i.Arg2
	}
	return s
}

// state: canonical encoding of map key -> value (absent keys omitted)
type state string

func decode(s state) map[string]string {
	m := map[string]string{}
	if s == "" {
		return m
	}
	for _, kv := range strings.Split(string(s), "\x00") {
		i := strings.IndexByte(kv, '\x01')
		m[kv[:i]] = kv[i+1:]
	}
	return m
}

func encode(m map[string]string) state {
	ks := make([]string, 0, len(m))
	for k := range m {
		ks = append(ks, k)
	}
	sort.Strings(ks)
	parts := make([]string, len(ks))
	for i, k := range ks {
		parts[i] = k + "\x01" + m[k]
	}
	return state(strings.Join(parts, "\x00"))
}

func step(st interface{}, input interface{}, output interface{}) (bool, interface{}) {
	in := input.(In)
	out := output.(Out)
	m := decode(st.(state))
	cur, has := m[in.Key]
	switch in.Op {
	case "GET":
		if !has {
			return out.Kind == "nil", st
		}
		return out.Kind == "str" && out.S == cur, st
	case "SET":
		m[in.Key] = in.Arg
		return out.Kind == "str" && out.S == "OK", encode(m)
	case "SETNX":
		if has {
			return out.Kind == "int" && out.I == 0, st
		}
		m[in.Key] = in.Arg
		return out.Kind == "int" && out.I == 1, encode(m)
	case "GETSET":
		okOut := (!has && out.Kind == "nil") || (has && out.Kind == "str" && out.S == cur)
		m[in.Key] = in.Arg
		return okOut, encode(m)
	case "DEL":
		if !has {
			return out.Kind == "int" && out.I == 0, st
		}
		delete(m, in.Key)
		return out.Kind == "int" && out.I == 1, encode(m)
	case "APPEND":
		m[in.Key] = cur + in.Arg
		return out.Kind == "int" && out.I == int64(len(cur)+len(in.Arg)), encode(m)
	case "INCR", "DECRBY":
		delta := int64(1)
		if in.Op == "DECRBY" {
			d, _ := strconv.ParseInt(in.Arg, 10, 64)
			delta = -d
		}
		v := int64(0)
		if has {
			p, ok := model.ParseInt(cur)
			if !ok {
				return out.Kind == "err", st
			}
			v = p
		}
		v += delta
		m[in.Key] = strconv.FormatInt(v, 10)
		return out.Kind == "int" && out.I == v, encode(m)
	case "MSETNX":
		_, has2 := m[in.Key2]
		if has || has2 {
			return out.Kind == "int" && out.I == 0, st
		}
		m[in.Key] = in.Arg
		m[in.Key2] = in.Arg2
		return out.Kind == "int" && out.I == 1, encode(m)
	}
	return false, st
}

func byKey(history []porcupine.Operation) [][]porcupine.Operation {
	m := map[string][]porcupine.Operation{}
	var keys []string
	for _, op := range history {
		k := op.Input.(In).Key
		if _, ok := m[k]; !ok {
			keys = append(keys, k)
		}
		m[k] = append(m[k], op)
	}
	sort.Strings(keys)
	out := make([][]porcupine.Operation, 0, len(keys))
	for _, k := range keys {
		out = append(out, m[k])
	}
	return out
}

func mkModel(partition bool) porcupine.Model {
	m := porcupine.Model{
		Init:  func() interface{} { return state("") },
		Step:  step,
		Equal: func(a, b interface{}) bool { return a.(state) == b.(state) },
		DescribeOperation: func(in, out interface{}) string {
			return fmt.Sprintf("%s -> %s", in.(In), out.(Out))
		},
		DescribeState: func(s interface{}) string { return fmt.Sprintf("%q", decode(s.(state))) },
	}
	if partition {
		m.Partition = byKey
	}
	return m
}

// Op is one recorded operation.
type Op struct {
	Client       int
	In           In
	Out          Out
	Call, Return int64
}

type Verdict int

const (
	Ok Verdict = iota
	Illegal
	Unknown
)

// Check runs the linearizability search. Histories without MSETNX are
// partitioned by key (P-compositionality); with MSETNX they are kept whole.
func Check(ops []Op, timeout time.Duration) Verdict {
	hasMulti := false
	h := make([]porcupine.Operation, len(ops))
	for i, o := range ops {
		if o.In.Op == "MSETNX" {
			hasMulti = true
		}
		h[i] = porcupine.Operation{ClientId: o.Client, Input: o.In, Call: o.Call, Output: o.Out, Return: o.Return}
	}
	res := porcupine.CheckOperationsTimeout(mkModel(!hasMulti), h, timeout)
	switch res {
	case porcupine.Ok:
		return Ok
	case porcupine.Illegal:
		return Illegal
	}
	return Unknown
}
