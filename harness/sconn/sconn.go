// Package sconn is a scripted in-memory net.Conn. Its input is a list of
// chunks: a Read never returns more than the rest of the current chunk, so the
// read-size sequence is the schedule. A Read that finds nothing delivered is a
// "would-block read": the connection records {bytes delivered, bytes written}
// at that instant, before it delivers the next chunk, blocks, or ends.
package sconn

import (
	"errors"
	"io"
	"net"
	"os"
	"sync"
	"sync/atomic"
	"syscall"
	"time"
)

// Seq is the single logical clock shared by transport, handler and tracer
// events of one process.
var seq atomic.Uint64

// NextSeq returns the next global sequence number. Every call is also
// "progress" for the spin watchdog.
func NextSeq() uint64 { return seq.Add(1) }

// Progress returns the current value of the logical clock.
func Progress() uint64 { return seq.Load() }

type Ending int

const (
	EOF   Ending = iota // half-close: reads return io.EOF, writes still succeed
	Reset               // reads and writes fail with ECONNRESET
	Hold                // block until Feed, End or Close
)

func (e Ending) String() string { return [...]string{"EOF", "RESET", "HOLD"}[e] }

// WouldBlock is the record taken at a would-block read.
type WouldBlock struct {
	Seq       uint64
	Delivered int // bytes delivered to the server so far
	OutLen    int // bytes written by the server so far
	// At is the wall-clock time of the record: everything delivered after it was
	// not available to the server before At (a lower bound for "when the next
	// request arrived"; only used to bound times the server itself derives from now).
	At time.Time
}

// WriteRec is one Write call.
type WriteRec struct {
	Seq uint64
	Off int // offset of this write in the output
	N   int
	Err bool
	// Timeout: the write was cut short by the stalled-reader script because a
	// write deadline was armed (see Script.StallWriteAt).
	Timeout bool
}

type Script struct {
	Chunks [][]byte
	End    Ending
	// FailWriteAt makes the n-th Write (1-based) and all later ones fail after
	// accepting FailWriteKeep bytes of the n-th. 0 = writes never fail.
	FailWriteAt   int
	FailWriteKeep int
	// StallWriteAt models a reader that stops reading during the n-th Write
	// (1-based) after taking StallWriteKeep bytes and stays stalled longer than
	// any write deadline, then reads on. Virtual time: when a write deadline is
	// armed at that Write it returns (keep, timeout error) at once and later
	// writes succeed; when none is armed the write simply completes (the reader
	// resumed eventually). 0 = never.
	StallWriteAt   int
	StallWriteKeep int
	// IdleAt models a client that pauses before sending what follows the n-th would-block read
	// (1-based) for longer than any read deadline. Virtual time: when a read deadline is armed at
	// that read it returns a timeout error at once (one time); when none is armed the read just
	// goes on waiting and the data arrives. 0 = never.
	IdleAt int
	// PauseWriteAt models a reader that is slow to take the n-th Write (1-based): the Write hands over
	// PauseWriteKeep bytes, then blocks (as a write into a full socket buffer does) until the driver calls
	// ResumeWrite, and only then hands over the REST OF THE CALLER'S SLICE AS IT IS AT THAT MOMENT - a
	// server that lets somebody else reuse the memory of a reply still being written shows up in the output.
	PauseWriteAt   int
	PauseWriteKeep int
	// EmptyReads: between every two scripted chunks one Read returns (0, nil) - "nothing happened", which
	// io.Reader permits (a zero-length write into a net.Pipe arrives like that). It is not the end of the stream.
	EmptyReads bool
	// CloseFails makes the first Close report an error after releasing the connection, as tls.Conn.Close does
	// when the close_notify alert cannot be sent to a peer that is already gone.
	CloseFails bool
	// EOFWithData makes the Read that hands out the very last scripted byte return (n, io.EOF) in one
	// call, as io.Reader permits and some transports do (crypto/tls up to 1.2 with a close_notify already
	// queued behind the data). Only with End == EOF.
	EOFWithData bool
}

type Conn struct {
	mu   sync.Mutex
	cond *sync.Cond

	chunks               [][]byte
	cur                  []byte // rest of the current chunk
	end                  Ending
	ended                bool // End() called in Hold mode: behave as endAs afterwards
	endAs                Ending
	failAt               int
	failKeep             int
	stallAt              int
	stallKeep            int
	pauseAt, pauseKeep   int
	paused, resumed      bool
	closeFails           bool
	eofWithData          bool
	emptyReads, emptyDue bool
	idleAt               int
	idled                bool
	rdl                  time.Time // read deadline armed by the server (zero = none)
	rdlArmed             int
	wdl                  time.Time // write deadline armed by the server (zero = none)
	wdlArmed             int       // number of non-zero write deadlines set

	delivered      int
	out            []byte
	writes         []WriteRec
	wbs            []WouldBlock
	nWrites        int
	nReads         int
	readHash       uint64 // hash of the served read-size sequence
	closed         bool
	closeCnt       int
	closeSeq       uint64
	waiting        bool // server is parked in a would-block read
	done           bool // driver marks that the serve call returned
	readAfterClose int
	resetSeen      bool
	readTimeouts   int
}

func New(s Script) *Conn {
	c := &Conn{end: s.End, failAt: s.FailWriteAt, failKeep: s.FailWriteKeep, stallAt: s.StallWriteAt, stallKeep: s.StallWriteKeep, idleAt: s.IdleAt, closeFails: s.CloseFails, emptyReads: s.EmptyReads, pauseAt: s.PauseWriteAt, pauseKeep: s.PauseWriteKeep, eofWithData: s.EOFWithData && s.End == EOF, readHash: 1469598103934665603}
	for _, ch := range s.Chunks {
		if len(ch) > 0 {
			c.chunks = append(c.chunks, ch)
		}
	}
	c.cond = sync.NewCond(&c.mu)
	return c
}

var errReset = &net.OpError{Op: "read", Net: "tcp", Err: syscall.ECONNRESET}

func (c *Conn) Read(p []byte) (int, error) {
	c.mu.Lock()
	defer c.mu.Unlock()
	NextSeq()
	if len(p) == 0 {
		return 0, nil
	}
	for {
		if c.closed {
			c.readAfterClose++
			return 0, net.ErrClosed
		}
		if len(c.cur) > 0 {
			n := copy(p, c.cur)
			c.cur = c.cur[n:]
			c.delivered += n
			c.nReads++
			c.readHash = (c.readHash ^ uint64(n)) * 1099511628211
			if c.eofWithData && len(c.cur) == 0 && len(c.chunks) == 0 {
				c.readHash = (c.readHash ^ 0xE0F) * 1099511628211
				return n, io.EOF
			}
			return n, nil
		}
		// nothing delivered: would-block read
		if !c.waiting {
			c.wbs = append(c.wbs, WouldBlock{Seq: NextSeq(), Delivered: c.delivered, OutLen: len(c.out), At: time.Now()})
			if c.idleAt > 0 && len(c.wbs) == c.idleAt && !c.idled && !c.rdl.IsZero() {
				c.idled = true
				c.readTimeouts++
				return 0, &net.OpError{Op: "read", Net: "tcp", Err: os.ErrDeadlineExceeded}
			}
		}
		if len(c.chunks) > 0 {
			if c.emptyReads && !c.emptyDue && c.delivered > 0 {
				// the empty read between two chunks
				c.emptyDue = true
				c.nReads++
				c.readHash = (c.readHash ^ 0xE0) * 1099511628211
				return 0, nil
			}
			c.emptyDue = false
			c.cur = c.chunks[0]
			c.chunks = c.chunks[1:]
			c.waiting = false
			continue
		}
		end := c.end
		if c.ended {
			end = c.endAs
		}
		switch end {
		case EOF:
			c.waiting = false
			return 0, io.EOF
		case Reset:
			c.waiting = false
			c.resetSeen = true
			return 0, errReset
		}
		c.waiting = true
		c.cond.Broadcast()
		c.cond.Wait()
	}
}

func (c *Conn) Write(p []byte) (int, error) {
	c.mu.Lock()
	defer c.mu.Unlock()
	s := NextSeq()
	if c.closed {
		return 0, net.ErrClosed
	}
	if c.resetSeen {
		// the peer is gone and the server has been told so by a failed read
		c.writes = append(c.writes, WriteRec{Seq: s, Off: len(c.out), N: 0, Err: true})
		return 0, &net.OpError{Op: "write", Net: "tcp", Err: syscall.EPIPE}
	}
	c.nWrites++
	if c.failAt > 0 && c.nWrites >= c.failAt {
		keep := 0
		if c.nWrites == c.failAt {
			keep = c.failKeep
			if keep > len(p) {
				keep = len(p)
			}
		}
		c.writes = append(c.writes, WriteRec{Seq: s, Off: len(c.out), N: keep, Err: true})
		c.out = append(c.out, p[:keep]...)
		return keep, &net.OpError{Op: "write", Net: "tcp", Err: syscall.EPIPE}
	}
	if c.pauseAt > 0 && c.nWrites == c.pauseAt && !c.resumed {
		keep := c.pauseKeep
		if keep > len(p) {
			keep = len(p)
		}
		off := len(c.out)
		c.out = append(c.out, p[:keep]...)
		c.paused = true
		c.cond.Broadcast()
		for !c.resumed && !c.closed {
			c.cond.Wait()
		}
		c.paused = false
		if c.closed {
			c.writes = append(c.writes, WriteRec{Seq: s, Off: off, N: keep, Err: true})
			return keep, net.ErrClosed
		}
		c.out = append(c.out, p[keep:]...)
		c.writes = append(c.writes, WriteRec{Seq: s, Off: off, N: len(p)})
		return len(p), nil
	}
	if c.stallAt > 0 && c.nWrites == c.stallAt && !c.wdl.IsZero() {
		keep := c.stallKeep
		if keep > len(p) {
			keep = len(p)
		}
		c.writes = append(c.writes, WriteRec{Seq: s, Off: len(c.out), N: keep, Err: true, Timeout: true})
		c.out = append(c.out, p[:keep]...)
		return keep, &net.OpError{Op: "write", Net: "tcp", Err: os.ErrDeadlineExceeded}
	}
	c.writes = append(c.writes, WriteRec{Seq: s, Off: len(c.out), N: len(p)})
	c.out = append(c.out, p...)
	return len(p), nil
}

func (c *Conn) Close() error {
	c.mu.Lock()
	defer c.mu.Unlock()
	c.closeCnt++
	if c.closed {
		return nil
	}
	c.closed = true
	c.closeSeq = NextSeq()
	c.cond.Broadcast()
	if c.closeFails {
		return errors.New("sconn: failed to send the closing alert (but the connection was closed anyway): broken pipe")
	}
	return nil
}

type addr string

func (a addr) Network() string { return "sconn" }
func (a addr) String() string  { return string(a) }

func (c *Conn) LocalAddr() net.Addr  { return addr("sconn-local") }
func (c *Conn) RemoteAddr() net.Addr { return addr("sconn-remote") }
func (c *Conn) SetReadDeadline(t time.Time) error {
	c.mu.Lock()
	defer c.mu.Unlock()
	c.rdl = t
	if !t.IsZero() {
		c.rdlArmed++
	}
	return nil
}
func (c *Conn) SetDeadline(t time.Time) error {
	c.SetReadDeadline(t)
	return c.SetWriteDeadline(t)
}
func (c *Conn) SetWriteDeadline(t time.Time) error {
	c.mu.Lock()
	defer c.mu.Unlock()
	c.wdl = t
	if !t.IsZero() {
		c.wdlArmed++
	}
	return nil
}

// ---- driver side ----

// Feed appends a chunk (Hold mode).
func (c *Conn) Feed(b []byte) {
	c.mu.Lock()
	defer c.mu.Unlock()
	if len(b) == 0 {
		return
	}
	c.chunks = append(c.chunks, append([]byte{}, b...))
	c.cond.Broadcast()
}

// End makes a Hold-mode connection end as e once everything fed was consumed.
func (c *Conn) End(e Ending) {
	c.mu.Lock()
	defer c.mu.Unlock()
	c.ended = true
	c.endAs = e
	c.cond.Broadcast()
}

// MarkDone is called by the driver when the serving call has returned.
func (c *Conn) MarkDone() {
	c.mu.Lock()
	defer c.mu.Unlock()
	c.done = true
	c.cond.Broadcast()
}

// WaitWritePaused blocks until the scripted Write is parked (true), or the serve call returned or the
// connection was closed without reaching it, or the watchdog fired (false).
func (c *Conn) WaitWritePaused(timeout time.Duration) bool {
	stop := make(chan struct{})
	defer close(stop)
	go func() {
		t := time.NewTimer(timeout)
		defer t.Stop()
		select {
		case <-t.C:
			c.mu.Lock()
			c.cond.Broadcast()
			c.mu.Unlock()
		case <-stop:
		}
	}()
	deadline := time.Now().Add(timeout)
	c.mu.Lock()
	defer c.mu.Unlock()
	for !c.paused && !c.done && !c.closed && time.Now().Before(deadline) {
		c.cond.Wait()
	}
	return c.paused
}

// ResumeWrite lets the parked Write (or a future one) complete.
func (c *Conn) ResumeWrite() {
	c.mu.Lock()
	defer c.mu.Unlock()
	c.resumed = true
	c.cond.Broadcast()
}

var ErrTimeout = errors.New("sconn: wait timed out")

// WaitIdle blocks until the server is parked in a would-block read with
// nothing left to deliver, or the connection was closed, or the serve call
// returned. The timeout is a watchdog only (result: ErrTimeout = inconclusive).
func (c *Conn) WaitIdle(timeout time.Duration) error {
	deadline := time.Now().Add(timeout)
	stop := make(chan struct{})
	defer close(stop)
	go func() {
		t := time.NewTimer(timeout)
		defer t.Stop()
		select {
		case <-t.C:
			c.mu.Lock()
			c.cond.Broadcast()
			c.mu.Unlock()
		case <-stop:
		}
	}()
	c.mu.Lock()
	defer c.mu.Unlock()
	for {
		if c.done || c.closed || (c.waiting && len(c.chunks) == 0 && len(c.cur) == 0) {
			return nil
		}
		if time.Now().After(deadline) {
			return ErrTimeout
		}
		c.cond.Wait()
	}
}

// Snapshot is a consistent copy of what the connection observed.
type Snapshot struct {
	Out            []byte
	Writes         []WriteRec
	WouldBlocks    []WouldBlock
	Delivered      int
	Reads          int
	ReadHash       uint64
	Closed         bool
	CloseCount     int
	CloseSeq       uint64
	Waiting        bool
	Pending        int // bytes scripted but not delivered
	ReadAfterClose int
	WriteDeadlines int // non-zero write deadlines the server armed
	ReadDeadlines  int // non-zero read deadlines the server armed
	ReadTimeouts   int // reads cut short by the idle-client script
}

func (c *Conn) Snapshot() Snapshot {
	c.mu.Lock()
	defer c.mu.Unlock()
	pend := len(c.cur)
	for _, ch := range c.chunks {
		pend += len(ch)
	}
	return Snapshot{
		Out:         append([]byte{}, c.out...),
		Writes:      append([]WriteRec{}, c.writes...),
		WouldBlocks: append([]WouldBlock{}, c.wbs...),
		Delivered:   c.delivered, Reads: c.nReads, ReadHash: c.readHash,
		Closed: c.closed, CloseCount: c.closeCnt, CloseSeq: c.closeSeq, Waiting: c.waiting, Pending: pend,
		ReadAfterClose: c.readAfterClose, WriteDeadlines: c.wdlArmed, ReadDeadlines: c.rdlArmed, ReadTimeouts: c.readTimeouts,
	}
}

// OutLen returns the number of bytes written so far.
func (c *Conn) OutLen() int {
	c.mu.Lock()
	defer c.mu.Unlock()
	return len(c.out)
}

// OutFrom returns a copy of the output from offset off.
func (c *Conn) OutFrom(off int) []byte {
	c.mu.Lock()
	defer c.mu.Unlock()
	if off > len(c.out) {
		off = len(c.out)
	}
	return append([]byte{}, c.out[off:]...)
}
