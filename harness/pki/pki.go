// Package pki mints a throw-away PKI at run time (nothing is taken from the
// repository's test certificates): a root CA, a server certificate, and the
// client credentials the TLS checks need.
package pki

import (
	"crypto/ecdsa"
	"crypto/elliptic"
	"crypto/rand"
	"crypto/tls"
	"crypto/x509"
	"crypto/x509/pkix"
	"encoding/pem"
	"math/big"
	"net"
	"os"
	"path/filepath"
	"strings"
	"sync/atomic"
	"time"
)

type Pair struct {
	Cert *x509.Certificate
	Key  *ecdsa.PrivateKey
	DER  []byte
}

func (p *Pair) CertPEM() []byte {
	return pem.EncodeToMemory(&pem.Block{Type: "CERTIFICATE", Bytes: p.DER})
}
func (p *Pair) KeyPEM() []byte {
	b, _ := x509.MarshalECPrivateKey(p.Key)
	return pem.EncodeToMemory(&pem.Block{Type: "EC PRIVATE KEY", Bytes: b})
}

var serial atomic.Int64

func mint(cn string, parent *Pair, isCA bool, notBefore, notAfter time.Time, server bool, sans ...string) *Pair {
	key, _ := ecdsa.GenerateKey(elliptic.P256(), rand.Reader)
	tmpl := &x509.Certificate{
		SerialNumber:          big.NewInt(1000 + serial.Add(1)),
		Subject:               pkix.Name{CommonName: cn, Organization: []string{"verif"}},
		NotBefore:             notBefore,
		NotAfter:              notAfter,
		BasicConstraintsValid: true,
		IsCA:                  isCA,
	}
	if isCA {
		tmpl.KeyUsage = x509.KeyUsageCertSign | x509.KeyUsageDigitalSignature
	} else {
		tmpl.KeyUsage = x509.KeyUsageDigitalSignature
		tmpl.ExtKeyUsage = []x509.ExtKeyUsage{x509.ExtKeyUsageClientAuth, x509.ExtKeyUsageServerAuth}
	}
	if server {
		tmpl.IPAddresses = []net.IP{net.ParseIP("127.0.0.1")}
		tmpl.DNSNames = []string{"localhost"}
	}
	tmpl.DNSNames = append(tmpl.DNSNames, sans...)
	signer, signerKey := tmpl, key
	if parent != nil {
		signer, signerKey = parent.Cert, parent.Key
	}
	der, err := x509.CreateCertificate(rand.Reader, tmpl, signer, &key.PublicKey, signerKey)
	if err != nil {
		panic(err)
	}
	cert, _ := x509.ParseCertificate(der)
	return &Pair{Cert: cert, Key: key, DER: der}
}

// PKI is everything one TLS scenario needs.
type PKI struct {
	CA, Server                *Pair
	ForeignCA                 *Pair
	Intermediate              *Pair // CA-signed intermediate whose CN is the rule's name
	Dir                       string
	CAFile, CertFile, KeyFile string
	ForeignCAFile             string // the certificate of a CA the server is NOT configured with (for rotation scenarios)
	CommonName                string // the name a CN rule asks for
}

// New mints the PKI and writes the server-side PEM files under dir.
func New(dir string, commonName string) (*PKI, error) {
	now := time.Now()
	p := &PKI{Dir: dir, CommonName: commonName}
	p.CA = mint("verif root CA", nil, true, now.Add(-time.Hour), now.Add(24*time.Hour), false)
	p.ForeignCA = mint("foreign CA", nil, true, now.Add(-time.Hour), now.Add(24*time.Hour), false)
	p.Server = mint("localhost", p.CA, false, now.Add(-time.Hour), now.Add(24*time.Hour), true)
	p.Intermediate = mint(commonName, p.CA, true, now.Add(-time.Hour), now.Add(24*time.Hour), false)
	if err := os.MkdirAll(dir, 0o755); err != nil {
		return nil, err
	}
	p.CAFile = filepath.Join(dir, "ca.pem")
	p.CertFile = filepath.Join(dir, "server.pem")
	p.KeyFile = filepath.Join(dir, "server.key")
	p.ForeignCAFile = filepath.Join(dir, "foreign-ca.pem")
	for f, b := range map[string][]byte{p.ForeignCAFile: p.ForeignCA.CertPEM(), p.CAFile: p.CA.CertPEM(), p.CertFile: p.Server.CertPEM(), p.KeyFile: p.Server.KeyPEM()} {
		if err := os.WriteFile(f, b, 0o600); err != nil {
			return nil, err
		}
	}
	return p, nil
}

// Credential kinds a client may present.
const (
	CredNone         = "none"
	CredSelfSigned   = "self-signed"
	CredForeignCA    = "foreign-ca"
	CredExpired      = "expired"
	CredJustExpired  = "expired-two-seconds-ago"
	CredNotYetValid  = "valid-from-in-30-seconds"
	CredWrongCNSAN   = "right-ca-wrong-cn-name-only-as-dns-san"
	CredWrongCN      = "right-ca-wrong-cn"
	CredCNOnIntermed = "right-ca-cn-only-on-intermediate"
	CredRight        = "right-ca-right-cn"
)

var AllCreds = []string{CredNone, CredSelfSigned, CredForeignCA, CredExpired, CredJustExpired, CredNotYetValid, CredWrongCN, CredWrongCNSAN, CredCNOnIntermed, CredRight}

// ClientConfig builds the tls.Config of a client presenting the credential.
func (p *PKI) ClientConfig(kind string) *tls.Config {
	pool := x509.NewCertPool()
	pool.AddCert(p.CA.Cert)
	cfg := &tls.Config{RootCAs: pool, ServerName: "localhost", MinVersion: tls.VersionTLS12}
	now := time.Now()
	chain := func(pairs ...*Pair) tls.Certificate {
		c := tls.Certificate{PrivateKey: pairs[0].Key, Leaf: pairs[0].Cert}
		for _, x := range pairs {
			c.Certificate = append(c.Certificate, x.DER)
		}
		return c
	}
	switch kind {
	case CredNone:
	case CredSelfSigned:
		cfg.Certificates = []tls.Certificate{chain(mint(p.CommonName, nil, false, now.Add(-time.Hour), now.Add(time.Hour), false))}
	case CredForeignCA:
		cfg.Certificates = []tls.Certificate{chain(mint(p.CommonName, p.ForeignCA, false, now.Add(-time.Hour), now.Add(time.Hour), false))}
	case CredExpired:
		cfg.Certificates = []tls.Certificate{chain(mint(p.CommonName, p.CA, false, now.Add(-48*time.Hour), now.Add(-24*time.Hour), false))}
	case CredJustExpired:
		// validity is checked against the clock as it is, without an allowance on either side
		cfg.Certificates = []tls.Certificate{chain(mint(p.CommonName, p.CA, false, now.Add(-48*time.Hour), now.Add(-2*time.Second), false))}
	case CredNotYetValid:
		cfg.Certificates = []tls.Certificate{chain(mint(p.CommonName, p.CA, false, now.Add(30*time.Second), now.Add(time.Hour), false))}
	case CredWrongCN:
		cfg.Certificates = []tls.Certificate{chain(mint("somebody else", p.CA, false, now.Add(-time.Hour), now.Add(time.Hour), false))}
	case CredWrongCNSAN:
		// the rule is about the COMMON name: the configured name as a DNS subject alternative name (also in upper
		// case, also covered by a wildcard) of a certificate with another common name does not satisfy it
		cfg.Certificates = []tls.Certificate{chain(mint("somebody else", p.CA, false, now.Add(-time.Hour), now.Add(time.Hour), false, p.CommonName, strings.ToUpper(p.CommonName), "*."+p.CommonName))}
	case CredCNOnIntermed:
		leaf := mint("leaf without the name", p.Intermediate, false, now.Add(-time.Hour), now.Add(time.Hour), false)
		cfg.Certificates = []tls.Certificate{chain(leaf, p.Intermediate)}
	case CredRight:
		cfg.Certificates = []tls.Certificate{chain(mint(p.CommonName, p.CA, false, now.Add(-time.Hour), now.Add(time.Hour), false))}
	}
	return cfg
}

// ChainsToCA reports whether the credential completes a handshake with a
// server that requires a certificate chaining to the CA.
func ChainsToCA(kind string) bool {
	switch kind {
	case CredWrongCN, CredWrongCNSAN, CredCNOnIntermed, CredRight:
		return true
	}
	return false
}
