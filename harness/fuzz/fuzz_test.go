// Package fuzz holds the coverage-guided leg of C06: Go's native fuzzer drives
// proto.Parser.Next() with the same oracle as the generated cases (never panic,
// terminate, no array with absent elements). Run by `bin/check C06` with an
// execution-count budget (-fuzztime=Nx), not a duration.
package fuzz

import (
	"bytes"
	"testing"

	"github.com/cybergarage/go-redis/redis/proto"
)

func walk(t *testing.T, m *proto.Message, depth int) {
	if m.Type != proto.ArrayMessage {
		return
	}
	arr, err := m.Array()
	if err != nil {
		return
	}
	if arr == nil {
		t.Fatalf("array message without an array")
	}
	n := arr.Size()
	for i := 0; i < n; i++ {
		e, err := arr.Next()
		if err != nil {
			return
		}
		if e == nil {
			t.Fatalf("array of size %d has an absent element at %d", n, i)
		}
		walk(t, e, depth+1)
	}
}

func FuzzParser(f *testing.F) {
	seeds := []string{
		"*3\r\n$3\r\nSET\r\n$1\r\nk\r\n$1\r\nv\r\n", "+OK\r\n", "-ERR x\r\n", ":1\r\n", "$-1\r\n", "$0\r\n\r\n", "*0\r\n", "*-1\r\n",
		"*2\r\n*1\r\n:1\r\n$2\r\n\r\n\r\n", "$5\r\nhel", "*2\r\n:1\r\n", "$9223372036854775807\r\n", "*2147483648\r\n", "*1\r\n*1\r\n*1\r\n$1\r\na\r\n",
	}
	for _, s := range seeds {
		f.Add([]byte(s))
	}
	f.Fuzz(func(t *testing.T, data []byte) {
		if len(data) > 1<<16 {
			return
		}
		p := proto.NewParserWithReader(bytes.NewReader(data))
		for i := 0; i <= len(data)+1; i++ {
			m, err := p.Next()
			if err != nil || m == nil {
				return
			}
			walk(t, m, 0)
		}
		t.Fatalf("more values than bytes: reading does not terminate")
	})
}
