// Package globref is the reference glob matcher: '*' matches any possibly
// empty sequence, '?' exactly one character, every other character itself,
// anchored over the whole key. (No '[', ']' or '\' handling: the monitors
// never generate them.)
package globref

func Match(pattern, key string) bool {
	if pattern == "" {
		return key == ""
	}
	switch pattern[0] {
	case '*':
		for i := 0; i <= len(key); i++ {
			if Match(pattern[1:], key[i:]) {
				return true
			}
		}
		return false
	case '?':
		return key != "" && Match(pattern[1:], key[1:])
	}
	return key != "" && key[0] == pattern[0] && Match(pattern[1:], key[1:])
}
