// Package rng is a small deterministic PRNG (splitmix64) with sub-streams, so
// that every generated case is a pure function of (seed, stream, index).
package rng

type R struct{ s uint64 }

func mix(z uint64) uint64 {
	z += 0x9e3779b97f4a7c15
	z = (z ^ (z >> 30)) * 0xbf58476d1ce4e5b9
	z = (z ^ (z >> 27)) * 0x94d049bb133111eb
	return z ^ (z >> 31)
}

// New derives a generator from a seed and any number of stream identifiers.
func New(seed uint64, streams ...uint64) *R {
	s := mix(seed)
	for _, st := range streams {
		s = mix(s ^ mix(st+0x51ed270b))
	}
	return &R{s: s}
}

// Str hashes a string to a stream identifier.
func Str(s string) uint64 {
	h := uint64(1469598103934665603)
	for i := 0; i < len(s); i++ {
		h ^= uint64(s[i])
		h *= 1099511628211
	}
	return h
}

func (r *R) U64() uint64 {
	r.s += 0x9e3779b97f4a7c15
	z := r.s
	z = (z ^ (z >> 30)) * 0xbf58476d1ce4e5b9
	z = (z ^ (z >> 27)) * 0x94d049bb133111eb
	return z ^ (z >> 31)
}

// Intn returns a value in [0,n); n<=0 yields 0.
func (r *R) Intn(n int) int {
	if n <= 0 {
		return 0
	}
	return int(r.U64() % uint64(n))
}

// Range returns a value in [lo,hi].
func (r *R) Range(lo, hi int) int { return lo + r.Intn(hi-lo+1) }

func (r *R) Bool() bool { return r.U64()&1 == 1 }

// Chance returns true with probability num/den.
func (r *R) Chance(num, den int) bool { return r.Intn(den) < num }

func (r *R) Bytes(n int) []byte {
	b := make([]byte, n)
	for i := 0; i < n; i += 8 {
		v := r.U64()
		for j := 0; j < 8 && i+j < n; j++ {
			b[i+j] = byte(v >> (8 * j))
		}
	}
	return b
}

// From returns n bytes drawn from the alphabet.
func (r *R) From(alpha []byte, n int) []byte {
	b := make([]byte, n)
	for i := range b {
		b[i] = alpha[r.Intn(len(alpha))]
	}
	return b
}

func Pick[T any](r *R, xs []T) T { return xs[r.Intn(len(xs))] }

func Shuffle[T any](r *R, xs []T) {
	for i := len(xs) - 1; i > 0; i-- {
		j := r.Intn(i + 1)
		xs[i], xs[j] = xs[j], xs[i]
	}
}
