module verif

go 1.22

require (
	github.com/anishathalye/porcupine v1.3.0
	github.com/cybergarage/go-logger v1.3.4
	github.com/cybergarage/go-redis v0.0.0
	github.com/cybergarage/go-tracing v1.1.3
)

require github.com/google/uuid v1.6.0 // indirect

replace github.com/cybergarage/go-redis => /repo
