// Package gen generates RESP value trees (bounded-exhaustive and random) and
// hostile byte streams.
package gen

import (
	"math"
	"strconv"

	"verif/resp"
	"verif/rng"
)

// Alphabet of the bounded-exhaustive payload enumeration.
var Alpha = []byte{'a', '\r', '\n', 0, '$', '*', '+', '-', ':', '0', '1', 0xff}

// LineAlpha is Alpha without CR and LF (line-type payloads cannot carry them).
var LineAlpha = []byte{'a', 0, '$', '*', '+', '-', ':', '0', '1', 0xff}

// Strings enumerates all strings over alpha of length <= maxLen.
func Strings(alpha []byte, maxLen int) [][]byte {
	out := [][]byte{{}}
	level := [][]byte{{}}
	for l := 1; l <= maxLen; l++ {
		var next [][]byte
		for _, s := range level {
			for _, c := range alpha {
				t := append(append([]byte{}, s...), c)
				next = append(next, t)
			}
		}
		out = append(out, next...)
		level = next
	}
	return out
}

// BoundaryInts are integers worth trying everywhere.
var BoundaryInts = []int64{0, 1, -1, 2, 9, 10, -10, 127, 128, 255, 256, 32767, 32768, 65535, 65536,
	math.MaxInt32 - 1, math.MaxInt32, math.MaxInt32 + 1, math.MinInt32, math.MinInt32 - 1, math.MaxUint32, math.MaxUint32 + 1,
	1e13, -1e13, math.MaxInt64 - 1, math.MaxInt64, math.MinInt64, math.MinInt64 + 1}

// Exhaustive returns the bounded-exhaustive tree set: every scalar with a
// payload of length <= 3 over the alphabet, every integer of BoundaryInts, and
// arrays of small arity/depth over representative scalars.
func Exhaustive() []resp.Value {
	var out []resp.Value
	for _, s := range Strings(LineAlpha, 3) {
		out = append(out, resp.Value{K: '+', B: s}, resp.Value{K: '-', B: s})
	}
	for _, i := range BoundaryInts {
		out = append(out, resp.Int(i))
	}
	out = append(out, resp.NullBulk())
	for _, s := range Strings(Alpha, 3) {
		out = append(out, resp.Bulk(s))
	}
	// representative scalars for arrays
	sc := []resp.Value{resp.Status("OK"), resp.Error("E r"), resp.Int(-7), resp.Bulk([]byte("\r\n")), resp.Bulk([]byte{}), resp.NullBulk()}
	var d1 []resp.Value // arrays of arity <= 3 over sc
	d1 = append(d1, resp.Array())
	for _, a := range sc {
		d1 = append(d1, resp.Array(a))
		for _, b := range sc {
			d1 = append(d1, resp.Array(a, b))
			for _, c := range sc {
				d1 = append(d1, resp.Array(a, b, c))
			}
		}
	}
	out = append(out, d1...)
	// depth 2: arity <= 2 over sc + arity<=2 arrays over sc
	var e2 []resp.Value
	e2 = append(e2, sc...)
	e2 = append(e2, resp.Array())
	for _, a := range sc {
		e2 = append(e2, resp.Array(a))
		for _, b := range sc {
			e2 = append(e2, resp.Array(a, b))
		}
	}
	var d2 []resp.Value
	for _, a := range e2 {
		if a.K == '*' {
			d2 = append(d2, resp.Array(a))
		}
		for _, b := range e2 {
			if a.K == '*' || b.K == '*' {
				d2 = append(d2, resp.Array(a, b))
			}
		}
	}
	out = append(out, d2...)
	// depth 3: arity <= 3 over 3 scalars and small nested arrays
	s3 := []resp.Value{resp.Bulk([]byte("$1\r\n")), resp.NullBulk(), resp.Int(0)}
	n2 := []resp.Value{resp.Array(resp.Array()), resp.Array(resp.Array(s3[0])), resp.Array(s3[1], resp.Array(s3[2])), resp.Array(resp.Array(s3[0], s3[1]), s3[2])}
	e3 := append(append([]resp.Value{}, s3...), n2...)
	for _, a := range n2 {
		out = append(out, resp.Array(a))
		for _, b := range e3 {
			out = append(out, resp.Array(a, b), resp.Array(b, a))
			for _, c := range e3 {
				out = append(out, resp.Array(b, a, c))
			}
		}
	}
	return out
}

// Opt bounds the random tree generator.
type Opt struct {
	MaxBulk  int
	MaxArity int
	MaxDepth int
}

// Line returns a random line payload (no CR/LF).
func Line(r *rng.R, max int) []byte {
	n := r.Intn(max + 1)
	b := r.Bytes(n)
	for i := range b {
		if b[i] == '\r' || b[i] == '\n' {
			b[i] = '_'
		}
	}
	return b
}

// BulkPayload returns a random binary payload biased towards hostile content.
func BulkPayload(r *rng.R, max int) []byte {
	var n int
	if max >= 65536 && r.Chance(1, 40) {
		// lengths right below the 64 KiB bound of the statement: buffer-growth boundaries live here
		return r.Bytes(rng.Pick(r, []int{65533, 65534, 65535, 65536}))
	}
	if r.Chance(1, 60) {
		// lengths where the decimal length prefix gains a digit (and their neighbours)
		n = rng.Pick(r, []int{9, 10, 11, 99, 100, 101, 999, 1000, 1001, 9999, 10000, 10001})
		if n > max {
			n = max
		}
		return r.From(Alpha, n)
	}
	switch r.Intn(10) {
	case 0:
		n = 0
	case 1, 2, 3, 4:
		n = r.Intn(16)
	case 5, 6, 7:
		n = r.Intn(300)
	default:
		n = r.Intn(max + 1)
	}
	switch r.Intn(4) {
	case 0:
		return r.From(Alpha, n)
	case 1:
		b := r.Bytes(n)
		// sprinkle CRLF and forged frames
		forged := [][]byte{[]byte("\r\n"), []byte("\r\n+OK\r\n"), []byte("\r\n$-1\r\n"), []byte("\r\n:1\r\n"), []byte("\r\n*1\r\n")}
		for k := 0; k < 3 && n > 8; k++ {
			f := rng.Pick(r, forged)
			if len(f) < n {
				copy(b[r.Intn(n-len(f)):], f)
			}
		}
		return b
	}
	return r.Bytes(n)
}

// Tree returns a random value tree.
func Tree(r *rng.R, o Opt, depth int) resp.Value {
	k := r.Intn(10)
	if depth >= o.MaxDepth && k >= 7 {
		k = r.Intn(7)
	}
	switch k {
	case 0:
		return resp.Value{K: '+', B: Line(r, 40)}
	case 1:
		return resp.Value{K: '-', B: Line(r, 60)}
	case 2:
		if r.Bool() {
			return resp.Int(rng.Pick(r, BoundaryInts))
		}
		return resp.Int(int64(r.U64()))
	case 3:
		return resp.NullBulk()
	case 4, 5, 6:
		return resp.Bulk(BulkPayload(r, o.MaxBulk))
	}
	// array
	var n int
	switch r.Intn(6) {
	case 0:
		n = 0
	case 1, 2, 3:
		n = r.Intn(5)
	default:
		n = r.Intn(o.MaxArity + 1)
	}
	v := resp.Value{K: '*', A: []resp.Value{}}
	sub := o
	if n > 8 {
		sub.MaxBulk = o.MaxBulk / 16
		sub.MaxArity = 4
	}
	for i := 0; i < n; i++ {
		v.A = append(v.A, Tree(r, sub, depth+1))
	}
	return v
}

// NonTrivial reports whether a tree exercises binary safety or nesting:
// contains CR, LF, NUL, a type byte at payload start, an empty/null bulk, or
// nesting >= 2.
func NonTrivial(v resp.Value) bool {
	if v.Depth() >= 2 {
		return true
	}
	var walk func(v resp.Value) bool
	walk = func(v resp.Value) bool {
		if v.K == '*' {
			for _, e := range v.A {
				if walk(e) {
					return true
				}
			}
			return false
		}
		if v.K == '$' && (v.Null || len(v.B) == 0) {
			return true
		}
		for i, c := range v.B {
			if c == '\r' || c == '\n' || c == 0 {
				return true
			}
			if i == 0 && (c == '+' || c == '-' || c == ':' || c == '$' || c == '*') {
				return true
			}
		}
		return false
	}
	return walk(v)
}

// Hash64 is FNV-1a over b.
func Hash64(b []byte) uint64 {
	h := uint64(1469598103934665603)
	for _, c := range b {
		h = (h ^ uint64(c)) * 1099511628211
	}
	return h
}

// LengthEdits are the digit strings substituted for length/count prefixes.
var LengthEdits = []string{"2147483647", "2147483648", "9223372036854775806", "9223372036854775807", "9223372036854775808",
	"10000000000000", "99999999999999999999", "-1", "-2", "-9223372036854775808", "", "+5", " 5", "5 ", "0x10", "1e3", "00", "-0", "4294967296", "536870912", "536870913", "1048577"}

// PrefixSpans returns the [start,end) spans of the digit strings after every
// '$' or '*' type byte that starts a token in a *valid* stream.
func PrefixSpans(stream []byte) [][2]int {
	var spans [][2]int
	var walk func(off int) int
	walk = func(off int) int {
		if off >= len(stream) {
			return -1
		}
		k := stream[off]
		i := off + 1
		for i < len(stream) && stream[i] != '\r' {
			i++
		}
		if i+1 >= len(stream) {
			return -1
		}
		line := stream[off+1 : i]
		next := i + 2
		switch k {
		case '+', '-', ':':
			return next
		case '$':
			spans = append(spans, [2]int{off + 1, i})
			n, err := strconv.Atoi(string(line))
			if err != nil || n < 0 {
				return next
			}
			return next + n + 2
		case '*':
			spans = append(spans, [2]int{off + 1, i})
			n, err := strconv.Atoi(string(line))
			if err != nil || n < 0 {
				return next
			}
			for j := 0; j < n; j++ {
				next = walk(next)
				if next < 0 {
					return -1
				}
			}
			return next
		}
		return -1
	}
	off := 0
	for off >= 0 && off < len(stream) {
		off = walk(off)
	}
	return spans
}

// Splice replaces stream[a:b] by repl.
func Splice(stream []byte, a, b int, repl []byte) []byte {
	out := make([]byte, 0, len(stream)-(b-a)+len(repl))
	out = append(out, stream[:a]...)
	out = append(out, repl...)
	out = append(out, stream[b:]...)
	return out
}

// Mutate applies one random structure-unaware mutation.
func Mutate(r *rng.R, s []byte) []byte {
	if len(s) == 0 {
		return []byte{rng.Pick(r, []byte("+-:$*x\r\n"))}
	}
	switch r.Intn(8) {
	case 0: // truncate
		return append([]byte{}, s[:r.Intn(len(s))]...)
	case 1: // flip a byte
		t := append([]byte{}, s...)
		t[r.Intn(len(t))] ^= byte(1 << r.Intn(8))
		return t
	case 2: // set a byte to a structural character
		t := append([]byte{}, s...)
		t[r.Intn(len(t))] = rng.Pick(r, []byte("+-:$*\r\n0159 "))
		return t
	case 3: // duplicate a span
		a := r.Intn(len(s))
		b := a + r.Intn(len(s)-a+1)
		return Splice(s, b, b, s[a:b])
	case 4: // delete a span
		a := r.Intn(len(s))
		b := a + r.Intn(min(len(s)-a, 8)+1)
		return Splice(s, a, b, nil)
	case 5: // insert structural bytes
		a := r.Intn(len(s) + 1)
		return Splice(s, a, a, r.From([]byte("+-:$*\r\n0123456789"), 1+r.Intn(4)))
	case 6: // edit a length prefix
		sp := PrefixSpans(s)
		if len(sp) > 0 {
			x := rng.Pick(r, sp)
			return Splice(s, x[0], x[1], []byte(rng.Pick(r, LengthEdits)))
		}
		return append([]byte{}, s[:r.Intn(len(s))]...)
	default: // swap CRLF
		t := append([]byte{}, s...)
		for i := 0; i+1 < len(t); i++ {
			if t[i] == '\r' && t[i+1] == '\n' && r.Chance(1, 3) {
				switch r.Intn(3) {
				case 0:
					t[i], t[i+1] = '\n', '\r'
				case 1:
					t[i+1] = 'x'
				case 2:
					t[i] = 'x'
				}
			}
		}
		return t
	}
}

// NearValid produces a stream from a loose RESP grammar (wrong counts, lengths
// that disagree with bodies, missing terminators).
func NearValid(r *rng.R, depth int) []byte {
	var b []byte
	num := func() string {
		switch r.Intn(8) {
		case 0:
			return rng.Pick(r, LengthEdits)
		case 1:
			return strconv.Itoa(-r.Intn(3))
		default:
			return strconv.Itoa(r.Intn(6))
		}
	}
	crlf := func() {
		switch r.Intn(12) {
		case 0:
			b = append(b, '\n')
		case 1:
			b = append(b, '\r')
		case 2:
		default:
			b = append(b, '\r', '\n')
		}
	}
	switch r.Intn(6) {
	case 0:
		b = append(b, '+')
		b = append(b, r.From([]byte("ab\r\n$*"), r.Intn(4))...)
		crlf()
	case 1:
		b = append(b, ':')
		b = append(b, num()...)
		crlf()
	case 2, 3:
		b = append(b, '$')
		b = append(b, num()...)
		crlf()
		b = append(b, r.From([]byte("ab\r\n$*:0"), r.Intn(7))...)
		crlf()
	default:
		b = append(b, '*')
		n := num()
		b = append(b, n...)
		crlf()
		cnt, _ := strconv.Atoi(n)
		if cnt < 0 || cnt > 6 {
			cnt = r.Intn(4)
		}
		if r.Chance(1, 4) {
			cnt = r.Intn(cnt + 2)
		}
		if depth < 5 {
			for i := 0; i < cnt; i++ {
				b = append(b, NearValid(r, depth+1)...)
			}
		}
	}
	return b
}
