package resp

import "testing"

func TestEncodeDecode(t *testing.T) {
	cases := map[string]Value{
		"+OK\r\n":                       Status("OK"),
		"-ERR x\r\n":                    Error("ERR x"),
		":-12\r\n":                      Int(-12),
		"$-1\r\n":                       NullBulk(),
		"$0\r\n\r\n":                    BulkS(""),
		"$4\r\na\r\nb\r\n":              BulkS("a\r\nb"),
		"*0\r\n":                        Array(),
		"*2\r\n$1\r\na\r\n*1\r\n:1\r\n": Array(BulkS("a"), Array(Int(1))),
		"*-1\r\n":                       {K: '*', Null: true},
	}
	for enc, v := range cases {
		if got := string(Encode(v)); got != enc {
			t.Errorf("Encode(%v) = %q want %q", v, got, enc)
		}
		d, n, st, why := Decode([]byte(enc))
		if st != Complete || n != len(enc) || !Equal(d, v) {
			t.Errorf("Decode(%q) = %v %d %v %s", enc, d, n, st, why)
		}
		for i := 0; i < len(enc); i++ {
			if _, _, st, _ := Decode([]byte(enc[:i])); st != Incomplete {
				t.Errorf("Decode(%q) prefix %d: status %v, want Incomplete", enc, i, st)
			}
		}
	}
}

func TestStrictness(t *testing.T) {
	bad := []string{"+a\nb\r\n", "+a\rb\r\n", ":abc\r\n", ":\r\n", ":+1\r\n", "$-2\r\n", "$abc\r\n", "$3\r\nabcd\r\n", "$3\r\nabcXY", "*-2\r\n", "*x\r\n", "!x\r\n", "internal system error", "$ 3\r\nabc\r\n", "$9223372036854775807\r\nab"}
	for _, b := range bad {
		if _, _, st, _ := Decode([]byte(b)); st == Complete {
			t.Errorf("Decode(%q) accepted", b)
		}
	}
	if _, _, st, _ := Decode([]byte("$9223372036854775807\r\nab")); st != Incomplete {
		t.Errorf("huge bulk length must be incomplete, not overflow")
	}
	vs, _, rest, badWhy, _ := DecodeAll([]byte("+OK\r\n:1\r\n$1\r\n"))
	if len(vs) != 2 || rest != 4 || badWhy != "" {
		t.Errorf("DecodeAll: %v %d %q", vs, rest, badWhy)
	}
}
