// Package resp is an independent strict RESP2 codec. It shares no code with
// github.com/cybergarage/go-redis/redis/proto and is the yard-stick the
// monitors compare the implementation against.
package resp

import (
	"bytes"
	"fmt"
	"strconv"
)

// Value is a RESP2 value tree.
type Value struct {
	K    byte    // '+', '-', ':', '$', '*'
	B    []byte  // payload of + - : $
	Null bool    // $-1 or *-1
	A    []Value // elements of *
}

func Status(s string) Value { return Value{K: '+', B: []byte(s)} }
func Error(s string) Value  { return Value{K: '-', B: []byte(s)} }
func Int(i int64) Value     { return Value{K: ':', B: []byte(strconv.FormatInt(i, 10))} }
func Bulk(b []byte) Value {
	if b == nil {
		b = []byte{}
	}
	return Value{K: '$', B: b}
}
func BulkS(s string) Value    { return Bulk([]byte(s)) }
func NullBulk() Value         { return Value{K: '$', Null: true} }
func Array(vs ...Value) Value { return Value{K: '*', A: append([]Value{}, vs...)} }
func Cmd(args ...string) Value {
	v := Value{K: '*', A: []Value{}}
	for _, a := range args {
		v.A = append(v.A, BulkS(a))
	}
	return v
}
func CmdB(args ...[]byte) Value {
	v := Value{K: '*', A: []Value{}}
	for _, a := range args {
		v.A = append(v.A, Bulk(a))
	}
	return v
}

// Encode returns the canonical RESP2 encoding.
func Encode(v Value) []byte {
	var b bytes.Buffer
	encode(&b, v)
	return b.Bytes()
}

// EncodeAll concatenates the encodings.
func EncodeAll(vs ...Value) []byte {
	var b bytes.Buffer
	for _, v := range vs {
		encode(&b, v)
	}
	return b.Bytes()
}

func encode(b *bytes.Buffer, v Value) {
	b.WriteByte(v.K)
	switch v.K {
	case '+', '-', ':':
		b.Write(v.B)
		b.WriteString("\r\n")
	case '$':
		if v.Null {
			b.WriteString("-1\r\n")
			return
		}
		b.WriteString(strconv.Itoa(len(v.B)))
		b.WriteString("\r\n")
		b.Write(v.B)
		b.WriteString("\r\n")
	case '*':
		if v.Null {
			b.WriteString("-1\r\n")
			return
		}
		b.WriteString(strconv.Itoa(len(v.A)))
		b.WriteString("\r\n")
		for _, e := range v.A {
			encode(b, e)
		}
	}
}

type Status_ int

const (
	Complete Status_ = iota
	Incomplete
	Invalid
)

// Decode strictly decodes one value from the front of b.
func Decode(b []byte) (v Value, n int, st Status_, reason string) {
	return decode(b, 0, 0)
}

// LaxIntegers makes the decoder accept any CR/LF-free payload in an integer
// frame (framing-level strictness only). Used by monitors that judge framing,
// not content. Not safe for concurrent toggling; set once at start-up.
var LaxIntegers = false

const maxDepth = 1 << 16 // the decoder recurses: keep its own stack far below the runtime limit

func readLine(b []byte, off int) (line []byte, next int, st Status_, reason string) {
	for i := off; i < len(b); i++ {
		switch b[i] {
		case '\n':
			return nil, i, Invalid, "bare LF inside a line"
		case '\r':
			if i+1 >= len(b) {
				return nil, 0, Incomplete, ""
			}
			if b[i+1] != '\n' {
				return nil, i, Invalid, "CR not followed by LF"
			}
			return b[off:i], i + 2, Complete, ""
		}
	}
	return nil, 0, Incomplete, ""
}

func strictInt(line []byte) (int64, bool) {
	if len(line) == 0 {
		return 0, false
	}
	i := 0
	if line[0] == '-' {
		i = 1
	}
	if i == len(line) {
		return 0, false
	}
	for _, c := range line[i:] {
		if c < '0' || c > '9' {
			return 0, false
		}
	}
	n, err := strconv.ParseInt(string(line), 10, 64)
	return n, err == nil
}

func decode(b []byte, off int, depth int) (Value, int, Status_, string) {
	if off >= len(b) {
		return Value{}, 0, Incomplete, ""
	}
	if depth > maxDepth {
		return Value{}, off, Invalid, "nesting too deep"
	}
	k := b[off]
	switch k {
	case '+', '-', ':':
		line, next, st, why := readLine(b, off+1)
		if st != Complete {
			return Value{}, next, st, why
		}
		if k == ':' && !LaxIntegers {
			if _, ok := strictInt(line); !ok {
				return Value{}, off, Invalid, fmt.Sprintf("integer payload %q", line)
			}
		}
		return Value{K: k, B: append([]byte{}, line...)}, next, Complete, ""
	case '$':
		line, next, st, why := readLine(b, off+1)
		if st != Complete {
			return Value{}, next, st, why
		}
		l, ok := strictInt(line)
		if !ok || l < -1 {
			return Value{}, off, Invalid, fmt.Sprintf("bulk length %q", line)
		}
		if l == -1 {
			return Value{K: '$', Null: true}, next, Complete, ""
		}
		if int64(len(b)-next)-2 < l {
			// what is there must not already contradict the framing
			if int64(len(b)-next) > l {
				if b[next+int(l)] != '\r' {
					return Value{}, next + int(l), Invalid, "bulk body not followed by CRLF"
				}
			}
			return Value{}, 0, Incomplete, ""
		}
		end := next + int(l)
		if b[end] != '\r' || b[end+1] != '\n' {
			return Value{}, end, Invalid, "bulk body not followed by CRLF"
		}
		return Value{K: '$', B: append([]byte{}, b[next:end]...)}, end + 2, Complete, ""
	case '*':
		line, next, st, why := readLine(b, off+1)
		if st != Complete {
			return Value{}, next, st, why
		}
		c, ok := strictInt(line)
		if !ok || c < -1 {
			return Value{}, off, Invalid, fmt.Sprintf("array count %q", line)
		}
		if c == -1 {
			return Value{K: '*', Null: true}, next, Complete, ""
		}
		v := Value{K: '*', A: []Value{}}
		for i := int64(0); i < c; i++ {
			e, n2, st, why := decode(b, next, depth+1)
			if st != Complete {
				return Value{}, n2, st, why
			}
			v.A = append(v.A, e)
			next = n2
		}
		return v, next, Complete, ""
	}
	return Value{}, off, Invalid, fmt.Sprintf("type byte 0x%02x", k)
}

// DecodeAll decodes as many complete values as b holds. rest is the number of
// trailing bytes that form an incomplete value; bad != "" reports invalid
// framing at offset badOff.
func DecodeAll(b []byte) (vs []Value, ends []int, rest int, bad string, badOff int) {
	off := 0
	for off < len(b) {
		v, n, st, why := decode(b, off, 0)
		switch st {
		case Complete:
			vs = append(vs, v)
			ends = append(ends, n)
			off = n
		case Incomplete:
			return vs, ends, len(b) - off, "", 0
		case Invalid:
			return vs, ends, len(b) - off, why, n
		}
	}
	return vs, ends, 0, "", 0
}

// Equal compares two value trees exactly (a nil and an empty payload are equal
// unless Null differs).
func Equal(a, b Value) bool {
	if a.K != b.K || a.Null != b.Null {
		return false
	}
	if a.K == '*' {
		if len(a.A) != len(b.A) {
			return false
		}
		for i := range a.A {
			if !Equal(a.A[i], b.A[i]) {
				return false
			}
		}
		return true
	}
	return bytes.Equal(a.B, b.B)
}

// String renders a value compactly for reports.
func (v Value) String() string {
	switch v.K {
	case '+', '-', ':':
		return fmt.Sprintf("%c%q", v.K, v.B)
	case '$':
		if v.Null {
			return "$nil"
		}
		if len(v.B) > 48 {
			return fmt.Sprintf("$%q…(%d)", v.B[:48], len(v.B))
		}
		return fmt.Sprintf("$%q", v.B)
	case '*':
		if v.Null {
			return "*nil"
		}
		s := "["
		for i, e := range v.A {
			if i > 0 {
				s += " "
			}
			if i >= 12 {
				s += fmt.Sprintf("…(%d)", len(v.A))
				break
			}
			s += e.String()
		}
		return s + "]"
	}
	return fmt.Sprintf("?0x%02x", v.K)
}

// IsErr reports whether v is an error reply.
func (v Value) IsErr() bool { return v.K == '-' }

// Depth returns the nesting depth (scalar = 0).
func (v Value) Depth() int {
	if v.K != '*' {
		return 0
	}
	d := 0
	for _, e := range v.A {
		if x := e.Depth(); x > d {
			d = x
		}
	}
	return d + 1
}
