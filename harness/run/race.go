package run

import (
	"regexp"
	"sort"
	"strings"
)

// RaceReport is one "WARNING: DATA RACE" block reduced to its two access sites.
type RaceReport struct {
	Sites     [2]string // innermost non-runtime function of each access stack
	Framework bool      // either site is in github.com/cybergarage/go-redis/redis[/...]
	Text      string
}

func (r RaceReport) Pair() string {
	a := []string{r.Sites[0], r.Sites[1]}
	sort.Strings(a)
	return a[0] + " <-> " + a[1]
}

var frameRe = regexp.MustCompile(`^  (\S+)\(`)
var closureRe = regexp.MustCompile(`\.func\d+(\.\d+)*$`)

const fwPrefix = "github.com/cybergarage/go-redis/redis"

func isRuntime(fn string) bool {
	return strings.HasPrefix(fn, "runtime.") || strings.HasPrefix(fn, "sync.") || strings.HasPrefix(fn, "sync/atomic.") || strings.HasPrefix(fn, "internal/")
}

// ParseRaceReports extracts the reports from race-detector output. A report
// counts as a framework report when ANY frame of either access stack is in the
// framework package ("any report whose stacks include a framework frame
// counts"); the site of each access is its innermost framework frame, or its
// innermost non-runtime frame when the stack has no framework frame.
func ParseRaceReports(out string) []RaceReport {
	var reps []RaceReport
	blocks := strings.Split(out, "WARNING: DATA RACE")
	for _, b := range blocks[1:] {
		if i := strings.Index(b, "=================="); i >= 0 {
			b = b[:i]
		}
		var sites []string
		fw := false
		lines := strings.Split(b, "\n")
		inAccess := false
		firstNonRuntime, firstFramework := "", ""
		flush := func() {
			if !inAccess {
				return
			}
			switch {
			case firstFramework != "":
				sites = append(sites, firstFramework)
				fw = true
			case firstNonRuntime != "":
				sites = append(sites, firstNonRuntime)
			default:
				sites = append(sites, "?")
			}
			inAccess, firstNonRuntime, firstFramework = false, "", ""
		}
		for _, l := range lines {
			t := strings.TrimSpace(l)
			switch {
			case strings.HasPrefix(t, "Write at"), strings.HasPrefix(t, "Read at"), strings.HasPrefix(t, "Previous write at"), strings.HasPrefix(t, "Previous read at"),
				strings.HasPrefix(t, "Atomic"), strings.HasPrefix(t, "Previous atomic"):
				flush()
				inAccess = true
				continue
			case strings.HasPrefix(t, "Goroutine "):
				flush()
				continue
			}
			if !inAccess {
				continue
			}
			if m := frameRe.FindStringSubmatch(l); m != nil {
				fn := closureRe.ReplaceAllString(m[1], ".func")
				if isRuntime(fn) {
					continue
				}
				if firstNonRuntime == "" {
					firstNonRuntime = fn
				}
				if firstFramework == "" && strings.HasPrefix(fn, fwPrefix) {
					firstFramework = fn
				}
			}
		}
		flush()
		var r RaceReport
		for i := 0; i < 2 && i < len(sites); i++ {
			r.Sites[i] = sites[i]
		}
		r.Framework = fw
		r.Text = "WARNING: DATA RACE" + b
		reps = append(reps, r)
	}
	return reps
}
