package run

import (
	"regexp"
	"sort"
	"strings"
)

// RaceReport is one "WARNING: DATA RACE" block reduced to its two access sites.
type RaceReport struct {
	Sites     [2]string // innermost non-runtime function of each access stack
	Framework bool      // either site is in github.com/cybergarage/go-redis/redis[/...]
	Text      string
}

func (r RaceReport) Pair() string {
	a := []string{r.Sites[0], r.Sites[1]}
	sort.Strings(a)
	return a[0] + " <-> " + a[1]
}

var frameRe = regexp.MustCompile(`^  (\S+)\(`)
var closureRe = regexp.MustCompile(`\.func\d+(\.\d+)*$`)

const fwPrefix = "github.com/cybergarage/go-redis/redis"

func isRuntime(fn string) bool {
	return strings.HasPrefix(fn, "runtime.") || strings.HasPrefix(fn, "sync.") || strings.HasPrefix(fn, "sync/atomic.") || strings.HasPrefix(fn, "internal/")
}

// ParseRaceReports extracts the reports from race-detector output.
func ParseRaceReports(out string) []RaceReport {
	var reps []RaceReport
	blocks := strings.Split(out, "WARNING: DATA RACE")
	for _, b := range blocks[1:] {
		if i := strings.Index(b, "=================="); i >= 0 {
			b = b[:i]
		}
		var sites []string
		fw := false
		lines := strings.Split(b, "\n")
		inAccess := false
		found := false
		for _, l := range lines {
			t := strings.TrimSpace(l)
			switch {
			case strings.HasPrefix(t, "Write at"), strings.HasPrefix(t, "Read at"), strings.HasPrefix(t, "Previous write at"), strings.HasPrefix(t, "Previous read at"),
				strings.HasPrefix(t, "Atomic"), strings.HasPrefix(t, "Previous atomic"):
				inAccess, found = true, false
				continue
			case strings.HasPrefix(t, "Goroutine "), t == "":
				if t != "" {
					inAccess = false
				}
				continue
			}
			if !inAccess || found {
				continue
			}
			if m := frameRe.FindStringSubmatch(l); m != nil {
				fn := m[1]
				if isRuntime(fn) {
					continue
				}
				fn = closureRe.ReplaceAllString(fn, ".func")
				sites = append(sites, fn)
				found = true
				if strings.HasPrefix(fn, fwPrefix) {
					fw = true
				}
			}
		}
		var r RaceReport
		for i := 0; i < 2 && i < len(sites); i++ {
			r.Sites[i] = sites[i]
		}
		r.Framework = fw
		r.Text = "WARNING: DATA RACE" + b
		reps = append(reps, r)
	}
	return reps
}
