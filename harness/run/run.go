// Package run is the case runner shared by all properties: a parent process
// splits a deterministic case list into batches, runs each batch in a child
// process (so that a crash, an allocation bomb or a spinning goroutine costs
// one child and is attributed to the exact case), aggregates results, matches
// violations against /verif/known_findings.json, writes replay files and the
// evidence file, and decides the exit code.
package run

import (
	"bufio"
	"bytes"
	"encoding/json"
	"fmt"
	"os"
	"os/exec"
	"path/filepath"
	"runtime"
	"runtime/pprof"
	"sort"
	"strconv"
	"strings"
	"sync"
	"syscall"
	"time"

	"verif/sconn"
)

const Root = "/verif"

// outRoot is where replay files and evidence go: Root, unless the development aid bin/check-at (which runs the
// checks against a scratch copy of the repository) redirects them with VERIF_OUT so that the evidence of the
// registered checks is not overwritten.
func outRoot() string {
	if d := os.Getenv("VERIF_OUT"); d != "" {
		return d
	}
	return Root
}

type Violation struct {
	Sig    string `json:"sig"`    // stable signature (dedupe, known-finding match)
	Clause string `json:"clause"` // the oracle clause that failed
	Detail string `json:"detail"`
	Case   any    `json:"case,omitempty"`
}

type Result struct {
	Idx          int                 `json:"i"`
	Key          uint64              `json:"k,omitempty"` // distinctness key of the case
	NonTrivial   bool                `json:"nt,omitempty"`
	Classes      []string            `json:"cl,omitempty"`
	Counters     map[string]int64    `json:"ct,omitempty"`
	Violations   []Violation         `json:"v,omitempty"`
	Inconclusive string              `json:"inc,omitempty"`
	Sample       any                 `json:"s,omitempty"`
	Keys         []uint64            `json:"ks,omitempty"`   // extra distinct non-trivial keys (sub-cases)
	Sets         map[string][]string `json:"sets,omitempty"` // named sets to be unioned (e.g. interleavings seen)
}

func (r *Result) Count(name string, n int64) {
	if r.Counters == nil {
		r.Counters = map[string]int64{}
	}
	r.Counters[name] += n
}

func (r *Result) AddSet(name, elem string) {
	if r.Sets == nil {
		r.Sets = map[string][]string{}
	}
	r.Sets[name] = append(r.Sets[name], elem)
}

func (r *Result) Violate(sig, clause, detail string, c any) {
	r.Violations = append(r.Violations, Violation{Sig: sig, Clause: clause, Detail: detail, Case: c})
}

type Prop struct {
	ID          string
	Level       string // exploration | fault_enumeration
	Rule        func(tier string) string
	Assumptions []string
	// Setup builds the case list for (tier, seed) and returns its length.
	Setup func(tier string, seed uint64) int
	// Run executes case idx (in a child) and judges it.
	Run func(idx int) Result
	// Describe renders case idx for crash attribution and samples.
	Describe      func(idx int) any
	Exhaustive    func(tier string) bool
	Chunk         int    // cases per child batch (default 200)
	Workers       int    // parallel children (default NumCPU)
	MinConclusive int    // fewer conclusive cases than this => exit 2
	ASLimit       uint64 // RLIMIT_AS for children in bytes (0 = none)
	Race          bool   // children are the race-detector build
	// Finish lets the property add parent-side verdicts/evidence after all cases ran.
	Finish func(a *Agg)
	// SpinCPU: seconds of CPU without progress that make a spin (default 3)
	NoWatchdog bool
	// PassiveWatchdog: for checks that run real listeners, real sockets and dozens of goroutines of their own in the
	// child (C09, C14, C15, C19). There CPU is legitimately consumed without a scripted-transport or handler event
	// (TLS handshakes, goroutine profiles, the race detector), so "CPU without an event" says nothing about the
	// server; these checks have structural verdicts of their own. The watchdog then only ends a child that made no
	// progress at all for 90 s; that is a violation only if the goroutine dump shows a lifecycle call or a connection
	// loop of the framework parked on a lock (a deadlock), otherwise inconclusive.
	PassiveWatchdog bool
}

var Props = map[string]*Prop{}

func Register(p *Prop) { Props[p.ID] = p }

// ---------------------------------------------------------------- findings

type Finding struct {
	Property string `json:"property"`
	ID       string `json:"id"`
	Status   string `json:"status"` // known | fixed
	Match    string `json:"match"`  // exact violation signature
	What     string `json:"what"`
	Witness  string `json:"witness,omitempty"`
	Commit   string `json:"commit,omitempty"`
}

func LoadFindings() []Finding {
	b, err := os.ReadFile(filepath.Join(Root, "known_findings.json"))
	if err != nil {
		return nil
	}
	var fs []Finding
	if err := json.Unmarshal(b, &fs); err != nil {
		fmt.Fprintf(os.Stderr, "known_findings.json: %v\n", err)
		os.Exit(2)
	}
	return fs
}

// ---------------------------------------------------------------- aggregate

type Agg struct {
	Prop        *Prop
	Tier        string
	Seed        uint64
	Evals       int
	Keys        map[uint64]struct{}
	Counters    map[string]int64
	Sets        map[string]map[string]struct{}
	Samples     []any
	Viol        map[string]*Violation // by sig
	ViolCount   map[string]int
	ViolIdx     map[string]int
	Inconcl     int
	Skipped     int
	Aborts      int
	InconclWhy  map[string]int
	Children    int
	ChildDeaths int
	Extra       map[string]any
	mu          sync.Mutex
}

func (a *Agg) AddViolation(idx int, v Violation) {
	if _, ok := a.Viol[v.Sig]; !ok {
		vv := v
		a.Viol[v.Sig] = &vv
		a.ViolIdx[v.Sig] = idx
	}
	a.ViolCount[v.Sig]++
}

func (a *Agg) add(r Result) {
	a.mu.Lock()
	defer a.mu.Unlock()
	a.Evals++
	if r.NonTrivial {
		a.Keys[r.Key] = struct{}{}
	}
	for _, k := range r.Keys {
		a.Keys[k] = struct{}{}
	}
	for _, c := range r.Classes {
		a.Counters["class:"+c]++
	}
	for k, v := range r.Counters {
		a.Counters[k] += v
	}
	for name, elems := range r.Sets {
		m := a.Sets[name]
		if m == nil {
			m = map[string]struct{}{}
			a.Sets[name] = m
		}
		for _, e := range elems {
			m[e] = struct{}{}
		}
	}
	if r.Sample != nil && len(a.Samples) < 4 {
		a.Samples = append(a.Samples, r.Sample)
	}
	if r.Inconclusive == skippedWhy {
		a.Skipped++
	}
	if r.Inconclusive != "" {
		a.Inconcl++
		a.InconclWhy[r.Inconclusive]++
	}
	for _, v := range r.Violations {
		a.AddViolation(r.Idx, v)
	}
}

// ---------------------------------------------------------------- child side

func Seed() uint64 {
	if s := os.Getenv("VERIF_SEED"); s != "" {
		if v, err := strconv.ParseUint(s, 10, 64); err == nil {
			return v
		}
		if v, err := strconv.ParseInt(s, 10, 64); err == nil {
			return uint64(v)
		}
	}
	return 1
}

type line struct {
	B     *int    `json:"b,omitempty"`
	R     *Result `json:"r,omitempty"`
	Abort *int    `json:"abort,omitempty"`
	Kind  string  `json:"kind,omitempty"`
	Info  string  `json:"info,omitempty"`
}

// ChildMain runs cases [from,to) and streams results as JSON lines.
func ChildMain(p *Prop, tier string, seed uint64, from, to int) {
	if p.ASLimit > 0 {
		lim := syscall.Rlimit{Cur: p.ASLimit, Max: p.ASLimit}
		_ = syscall.Setrlimit(syscall.RLIMIT_AS, &lim)
	}
	n := p.Setup(tier, seed)
	if to > n {
		to = n
	}
	out := bufio.NewWriter(os.Stdout)
	var omu sync.Mutex
	emit := func(l line) {
		omu.Lock()
		defer omu.Unlock()
		b, _ := json.Marshal(l)
		out.Write(b)
		out.WriteByte('\n')
		out.Flush()
	}
	var cur int64 = -1
	var curMu sync.Mutex
	if !p.NoWatchdog {
		go watchdog(func() int {
			curMu.Lock()
			defer curMu.Unlock()
			return int(cur)
		}, emit, p.PassiveWatchdog)
	}
	timedOut := 0
	for i := from; i < to; i++ {
		curMu.Lock()
		cur = int64(i)
		curMu.Unlock()
		sconn.NextSeq()
		ii := i
		emit(line{B: &ii})
		if timedOut >= maxTimeoutsPerChild {
			// fail fast on a tree where everything hangs: the remaining cases of this batch are not run (they are
			// reported as inconclusive, and the parent stops handing out batches when this happens repeatedly)
			r := Result{Idx: i, Inconclusive: skippedWhy}
			emit(line{R: &r})
			continue
		}
		r := p.Run(i)
		r.Idx = i
		if strings.HasPrefix(r.Inconclusive, "watchdog") {
			timedOut++
			// The case gave up waiting for the serving call. If a goroutine of the connection loop is parked on a
			// LOCK inside the framework (not in a read of the scripted or real transport, not in a handler of the
			// harness), nothing the client could send would ever wake it: that is a stall, not a slow machine.
			if w := lockedServerGoroutine(); w != "" && len(r.Violations) == 0 {
				r.Inconclusive = ""
				r.Violate("stall:connection-loop-parked-on-a-framework-lock", "no request makes the connection spin or stall; every other connection continues to be served", "the serving call did not return within the case watchdog, and a connection goroutine is parked on a lock inside the framework:\n"+w, r.Sample)
			} else if w := spinningServerGoroutine(); w != "" && len(r.Violations) == 0 {
				// ... and if a goroutine of the connection loop is found running (not waiting for anything) in three
				// profiles taken 150 ms apart after the case has given up, it is busy without end: a spin.
				r.Inconclusive = ""
				r.Violate("spin:connection-loop-busy-after-the-case-gave-up", "no request makes the connection spin or stall; the connection's goroutine terminates", "the serving call did not return within the case watchdog, and the same connection goroutine was running in three goroutine profiles taken 150 ms apart:\n"+w, r.Sample)
			}
		}
		emit(line{R: &r})
	}
	curMu.Lock()
	cur = -1
	curMu.Unlock()
}

// maxTimeoutsPerChild: after this many cases of one child that ended on the case watchdog ("the serving call did not
// return"), the child skips the rest of its batch. On a healthy tree no case ends that way.
const maxTimeoutsPerChild = 6
const skippedWhy = "skipped: earlier cases of this batch ran into the watchdog"

// lockedServerGoroutine returns the stack of a goroutine of the framework's connection loop that is parked on a
// sync primitive with a framework frame on top of the wait (not inside a handler or transport of the harness).
func lockedServerGoroutine() string {
	var buf bytes.Buffer
	pprof.Lookup("goroutine").WriteTo(&buf, 2)
	for _, g := range strings.Split(buf.String(), "\n\n") {
		if !strings.Contains(g, "go-redis/redis.(*Server).receive(") {
			continue
		}
		lines := strings.Split(g, "\n")
		if len(lines) < 4 || !(strings.Contains(lines[0], "sync.Mutex.Lock") || strings.Contains(lines[0], "sync.RWMutex") || strings.Contains(lines[0], "semacquire")) {
			continue
		}
		// the first frame that is neither runtime nor sync must belong to the framework
		for k := 1; k < len(lines); k += 2 {
			f := lines[k]
			if strings.HasPrefix(f, "sync.") || strings.HasPrefix(f, "runtime.") || strings.HasPrefix(f, "internal/") {
				continue
			}
			if strings.HasPrefix(f, "github.com/cybergarage/go-redis/redis") {
				if len(g) > 1800 {
					g = g[:1800]
				}
				return g
			}
			break
		}
	}
	return ""
}

// spinningServerGoroutine: the stack of a connection-loop goroutine that is running or runnable in three consecutive
// goroutine profiles (150 ms apart), "" if there is none.
// SpinningServerGoroutine is spinningServerGoroutine for checks that want to look before they release the connection.
func SpinningServerGoroutine() string { return spinningServerGoroutine() }

func spinningServerGoroutine() string {
	busy := map[string]int{}
	last := map[string]string{}
	for k := 0; k < 3; k++ {
		if k > 0 {
			time.Sleep(150 * time.Millisecond)
		}
		var buf bytes.Buffer
		pprof.Lookup("goroutine").WriteTo(&buf, 2)
		for _, g := range strings.Split(buf.String(), "\n\n") {
			if !strings.Contains(g, "go-redis/redis.(*Server).receive(") {
				continue
			}
			head := g
			if i := strings.Index(g, "\n"); i > 0 {
				head = g[:i]
			}
			if !(strings.Contains(head, "[running") || strings.Contains(head, "[runnable")) {
				continue
			}
			id := strings.Fields(head)
			if len(id) < 2 {
				continue
			}
			busy[id[1]]++
			last[id[1]] = g
		}
	}
	for id, n := range busy {
		if n == 3 {
			g := last[id]
			if len(g) > 1800 {
				g = g[:1800]
			}
			return g
		}
	}
	return ""
}

func cpuSeconds() float64 {
	var ru syscall.Rusage
	_ = syscall.Getrusage(syscall.RUSAGE_SELF, &ru)
	return float64(ru.Utime.Sec) + float64(ru.Utime.Usec)/1e6 + float64(ru.Stime.Sec) + float64(ru.Stime.Usec)/1e6
}

// watchdog: a case is a SPIN when the logical clock (transport, handler and
// tracer events) did not advance while this process consumed >= 3 s of CPU;
// it is a STALL candidate when the clock did not advance for 20 s of wall
// time with no CPU use (the parent treats that as inconclusive unless the
// goroutine dump shows the serving goroutine parked in framework code).
func watchdog(cur func() int, emit func(line), passive bool) {
	last := sconn.Progress()
	lastCPU := cpuSeconds()
	lastWall := time.Now()
	for {
		time.Sleep(250 * time.Millisecond)
		p := sconn.Progress()
		if p != last {
			last, lastCPU, lastWall = p, cpuSeconds(), time.Now()
			continue
		}
		idx := cur()
		if idx < 0 {
			last, lastCPU, lastWall = p, cpuSeconds(), time.Now()
			continue
		}
		cpu := cpuSeconds() - lastCPU
		wall := time.Since(lastWall)
		kind := ""
		if passive {
			if wall > 90*time.Second {
				kind = "hang"
			}
		} else if cpu >= 3.0 {
			kind = "spin"
		} else if wall > 20*time.Second {
			kind = "stall"
		}
		if kind != "" {
			var buf bytes.Buffer
			pprof.Lookup("goroutine").WriteTo(&buf, 2)
			os.Stderr.Write(buf.Bytes())
			emit(line{Abort: &idx, Kind: kind, Info: fmt.Sprintf("cpu=%.1fs wall=%.1fs without any transport/handler event", cpu, wall.Seconds())})
			os.Exit(3)
		}
	}
}

// ---------------------------------------------------------------- parent side

func exe() string {
	e, err := os.Executable()
	if err != nil {
		return os.Args[0]
	}
	return e
}

func WorkDir(id string) string {
	d := filepath.Join(outRoot(), "work", id)
	os.MkdirAll(d, 0o755)
	return d
}

type batch struct{ from, to int }

// frameworkFrame extracts the first go-redis frame of a panic/fatal dump.
func frameworkFrame(stderr string) string {
	for _, l := range strings.Split(stderr, "\n") {
		l = strings.TrimSpace(l)
		if strings.HasPrefix(l, "github.com/cybergarage/go-redis/") && strings.Contains(l, "(") {
			if i := strings.LastIndex(l, "("); i > 0 {
				l = l[:i]
			}
			return strings.TrimPrefix(l, "github.com/cybergarage/go-redis/")
		}
	}
	return "?"
}

func firstLine(s, prefix string) string {
	for _, l := range strings.Split(s, "\n") {
		if strings.HasPrefix(l, prefix) {
			return l
		}
	}
	return ""
}

func tail(s string, n int) string {
	if len(s) > n {
		return "…" + s[len(s)-n:]
	}
	return s
}

// maxAborts: after this many cases that ended with the child watchdog killing the child (spin or stall), or with the
// child dying, the run stops exploring: on a healthy tree there are none, on a tree where every other case hangs each
// of them costs the watchdog's 20 s.
const maxAborts = 24

func runBatch(p *Prop, a *Agg, b batch, bin string) {
	from := b.from
	for from < b.to {
		a.mu.Lock()
		giveUp := a.Aborts+a.ChildDeaths >= maxAborts
		if giveUp {
			a.Inconcl += b.to - from
			a.InconclWhy["not run: the child watchdog had to end a case (or the child died) many times already"] += b.to - from
		}
		a.mu.Unlock()
		if giveUp {
			return
		}
		cmd := exec.Command(bin, "child", p.ID, a.Tier, strconv.FormatUint(a.Seed, 10), strconv.Itoa(from), strconv.Itoa(b.to))
		var stderr bytes.Buffer
		cmd.Stderr = &stderr
		cmd.Env = append(os.Environ(), "VERIF_CHILD=1", "GORACE=halt_on_error=0 history_size=3")
		stdout, _ := cmd.StdoutPipe()
		if err := cmd.Start(); err != nil {
			fmt.Fprintf(os.Stderr, "cannot start child: %v\n", err)
			os.Exit(2)
		}
		a.mu.Lock()
		a.Children++
		a.mu.Unlock()
		sc := bufio.NewScanner(stdout)
		sc.Buffer(make([]byte, 1<<20), 1<<28)
		open := -1
		lastDone := from - 1
		aborted := false
		for sc.Scan() {
			var l line
			if err := json.Unmarshal(sc.Bytes(), &l); err != nil {
				continue
			}
			switch {
			case l.B != nil:
				open = *l.B
			case l.R != nil:
				a.add(*l.R)
				lastDone = l.R.Idx
				open = -1
			case l.Abort != nil:
				aborted = true
				a.mu.Lock()
				a.Aborts++
				a.mu.Unlock()
				idx := *l.Abort
				var r Result
				r.Idx = idx
				desc := p.Describe(idx)
				if l.Kind == "hang" {
					// no progress of any kind for 90 s. A goroutine inside a lifecycle call or the connection loop of the
					// framework that is parked on a lock or a WaitGroup is a deadlock; anything else is inconclusive.
					r.Inconclusive = "watchdog:hang"
					for _, g := range strings.Split(stderr.String(), "\n\n") {
						lines := strings.Split(g, "\n")
						if len(lines) < 3 || !strings.Contains(g, "github.com/cybergarage/go-redis/redis.(*Server).") {
							continue
						}
						if strings.Contains(lines[0], "sync.Mutex.Lock") || strings.Contains(lines[0], "sync.RWMutex") || strings.Contains(lines[0], "sync.WaitGroup.Wait") || strings.Contains(lines[0], "semacquire") {
							r.Inconclusive = ""
							r.Violate("stall:"+caseSig(desc), "no spin/stall: a lifecycle call or connection loop of the framework parked on a lock", l.Info+"\n"+tail(g, 2500), desc)
							break
						}
					}
				} else if l.Kind == "spin" {
					r.Violate("spin:"+caseSig(desc), "no spin/stall: the serving goroutine consumed CPU without any transport or handler event", l.Info, desc)
				} else {
					dump := stderr.String()
					if strings.Contains(dump, "go-redis/redis.(*Server)") && !strings.Contains(dump, "sconn.(*Conn).Read") {
						r.Violate("stall:"+caseSig(desc), "no spin/stall: serving goroutine parked in framework code", l.Info+"\n"+tail(dump, 3000), desc)
					} else {
						r.Inconclusive = "watchdog:" + l.Kind
					}
				}
				a.add(r)
				lastDone = idx
				open = -1
			}
		}
		err := cmd.Wait()
		// race-detector reports of a race-built child (it keeps running after a report)
		if strings.Contains(stderr.String(), "WARNING: DATA RACE") {
			for _, rep := range ParseRaceReports(stderr.String()) {
				var r Result
				r.Idx = from
				if rep.Framework {
					r.Violate("race:"+rep.Pair(), "no data race in framework state", tail(rep.Text, 3500), map[string]any{"batch_from": from, "batch_to": b.to, "sites": rep.Pair()})
				} else {
					r.Count("race_reports_outside_framework", 1)
				}
				r.Inconclusive = ""
				a.mu.Lock()
				for _, v := range r.Violations {
					a.AddViolation(r.Idx, v)
				}
				for k, v := range r.Counters {
					a.Counters[k] += v
				}
				a.mu.Unlock()
			}
			if err != nil && open < 0 {
				err = nil // exit status 66 only says "races were reported"
			}
		}
		if err != nil && !aborted && open >= 0 {
			// the child died inside case `open`
			a.mu.Lock()
			a.ChildDeaths++
			a.mu.Unlock()
			se := stderr.String()
			desc := p.Describe(open)
			var r Result
			r.Idx = open
			why := firstLine(se, "panic:")
			if why == "" {
				why = firstLine(se, "fatal error:")
			}
			if why == "" {
				why = firstLine(se, "runtime:")
			}
			if why == "" {
				why = err.Error()
			}
			r.Violate("death:"+frameworkFrame(se)+":"+strings.SplitN(why, "(", 2)[0], "the process must not die", why+"\n"+tail(se, 4000), desc)
			a.add(r)
			lastDone = open
		} else if err != nil && !aborted && open < 0 && lastDone < b.to-1 {
			// died between cases (should not happen)
			var r Result
			r.Idx = lastDone + 1
			r.Inconclusive = "child exited unexpectedly: " + err.Error() + " " + tail(stderr.String(), 500)
			a.add(r)
			lastDone++
		}
		from = lastDone + 1
		if err == nil {
			break
		}
	}
}

func caseSig(desc any) string {
	if m, ok := desc.(map[string]any); ok {
		if s, ok := m["sig"].(string); ok && s != "" {
			return s
		}
	}
	b, _ := json.Marshal(desc)
	if len(b) > 200 {
		h := uint64(1469598103934665603)
		for _, c := range b {
			h = (h ^ uint64(c)) * 1099511628211
		}
		return fmt.Sprintf("%s#%016x", b[:120], h)
	}
	return string(b)
}

// ParentMain runs the property and returns the process exit code.
func ParentMain(p *Prop, tier string) int {
	start := time.Now()
	seed := Seed()
	a := &Agg{Prop: p, Tier: tier, Seed: seed, Keys: map[uint64]struct{}{}, Counters: map[string]int64{},
		Sets: map[string]map[string]struct{}{}, Viol: map[string]*Violation{}, ViolCount: map[string]int{}, ViolIdx: map[string]int{},
		InconclWhy: map[string]int{}, Extra: map[string]any{}}
	n := p.Setup(tier, seed)
	chunk := p.Chunk
	if chunk <= 0 {
		chunk = 200
	}
	workers := p.Workers
	if workers <= 0 {
		workers = runtime.NumCPU()
	}
	// keep batches small enough to occupy all workers
	if n/chunk < workers*2 && n > workers*2 {
		chunk = n/(workers*2) + 1
	}
	bin := exe()
	if p.Race {
		bin = RaceBin()
	}
	bch := make(chan batch)
	var wg sync.WaitGroup
	for w := 0; w < workers; w++ {
		wg.Add(1)
		go func() {
			defer wg.Done()
			for b := range bch {
				runBatch(p, a, b, bin)
			}
		}()
	}
	for f := 0; f < n; f += chunk {
		t := f + chunk
		if t > n {
			t = n
		}
		a.mu.Lock()
		giveUp := a.Skipped > 0 && a.Inconcl > 3*maxTimeoutsPerChild
		a.mu.Unlock()
		if giveUp {
			// several children have given up on their batches: the tree hangs everywhere, the rest is not explored
			a.mu.Lock()
			a.Inconcl += n - f
			a.InconclWhy["not run: earlier batches ran into the watchdog again and again"] += n - f
			a.mu.Unlock()
			break
		}
		bch <- batch{f, t}
	}
	close(bch)
	wg.Wait()
	if p.Finish != nil {
		p.Finish(a)
	}
	return Conclude(a, start)
}

// Conclude matches violations against known findings, writes replay files and
// evidence, prints the verdict lines and returns the exit code.
func Conclude(a *Agg, start time.Time) int {
	p := a.Prop
	findings := LoadFindings()
	known := map[string]Finding{}
	for _, f := range findings {
		if f.Property == p.ID && f.Status == "known" {
			known[f.Match] = f
		}
	}
	wd := WorkDir(p.ID)
	vdir := filepath.Join(wd, "violations")
	os.RemoveAll(vdir)
	os.MkdirAll(vdir, 0o755)
	sigs := make([]string, 0, len(a.Viol))
	for s := range a.Viol {
		sigs = append(sigs, s)
	}
	sort.Strings(sigs)
	nViol, nKnown := 0, 0
	knownPrinted := map[string]bool{}
	for i, s := range sigs {
		v := a.Viol[s]
		if f, ok := known[s]; ok {
			nKnown++
			if !knownPrinted[f.ID] {
				fmt.Printf("KNOWN-FINDING: property=%s %s (%s; seen %d times)\n", p.ID, f.What, f.ID, a.ViolCount[s])
				knownPrinted[f.ID] = true
			}
			continue
		}
		nViol++
		path := filepath.Join(vdir, fmt.Sprintf("%03d.json", i))
		rep := map[string]any{"property": p.ID, "tier": a.Tier, "seed": a.Seed, "idx": a.ViolIdx[s], "sig": v.Sig,
			"clause": v.Clause, "detail": v.Detail, "case": v.Case, "occurrences": a.ViolCount[s]}
		b, _ := json.MarshalIndent(rep, "", " ")
		os.WriteFile(path, b, 0o644)
		if nViol <= 25 {
			fmt.Printf("VIOLATION property=%s replay=%s\n", p.ID, path)
			fmt.Printf("  clause: %s\n  sig: %s\n  detail: %s\n", v.Clause, clip(v.Sig, 300), clip(v.Detail, 600))
		}
	}
	if nViol > 25 {
		fmt.Printf("  … %d more distinct violations under %s\n", nViol-25, vdir)
	}
	for why, c := range a.InconclWhy {
		fmt.Printf("INCONCLUSIVE property=%s cases=%d reason=%s\n", p.ID, c, clip(why, 300))
	}
	conclusive := a.Evals - a.Inconcl
	writeEvidence(a, start, nViol, nKnown)
	fmt.Printf("%s %s seed=%d: %d cases, %d distinct non-trivial, %d violations (%d distinct new, %d known), %d inconclusive, %d children (%d died), %.1fs\n",
		p.ID, a.Tier, a.Seed, a.Evals, len(a.Keys), sumCounts(a.ViolCount), nViol, nKnown, a.Inconcl, a.Children, a.ChildDeaths, time.Since(start).Seconds())
	if nViol > 0 {
		return 1
	}
	if conclusive < p.MinConclusive || len(a.Keys) < 2 {
		fmt.Printf("CHECK-COULD-NOT-RUN property=%s conclusive=%d (< %d) distinct_nontrivial=%d\n", p.ID, conclusive, p.MinConclusive, len(a.Keys))
		return 2
	}
	if v, ok := a.Extra["self_check_failed"]; ok {
		fmt.Printf("CHECK-COULD-NOT-RUN property=%s %v\n", p.ID, v)
		return 2
	}
	return 0
}

func sumCounts(m map[string]int) int {
	t := 0
	for _, v := range m {
		t += v
	}
	return t
}

func clip(s string, n int) string {
	if len(s) > n {
		return s[:n] + "…"
	}
	return s
}

func writeEvidence(a *Agg, start time.Time, nViol, nKnown int) {
	p := a.Prop
	cov := map[string]any{
		"evaluations":            a.Evals,
		"distinct_nontrivial":    len(a.Keys),
		"rule":                   p.Rule(a.Tier),
		"samples":                a.Samples,
		"counters":               a.Counters,
		"inconclusive":           a.Inconcl,
		"known_findings_matched": nKnown,
		"children":               a.Children,
		"children_died":          a.ChildDeaths,
	}
	if len(a.Samples) == 0 {
		cov["samples"] = []any{"(no sample recorded)"}
	}
	if p.Exhaustive != nil && p.Exhaustive(a.Tier) {
		cov["exhaustive"] = true
	}
	for name, m := range a.Sets {
		cov["distinct_"+name] = len(m)
		if len(m) <= 40 {
			ks := make([]string, 0, len(m))
			for k := range m {
				ks = append(ks, k)
			}
			sort.Strings(ks)
			cov[name] = ks
		}
	}
	for k, v := range a.Extra {
		cov[k] = v
	}
	ev := map[string]any{
		"property_id": p.ID,
		"tier":        a.Tier,
		"seed":        int64(a.Seed),
		"level":       p.Level,
		"coverage":    cov,
		"assumptions": p.Assumptions,
		"wall_s":      time.Since(start).Seconds(),
		"violations":  nViol,
	}
	b, _ := json.MarshalIndent(ev, "", " ")
	os.MkdirAll(filepath.Join(outRoot(), "evidence"), 0o755)
	os.WriteFile(filepath.Join(outRoot(), "evidence", p.ID+".json"), b, 0o644)
}

// Replay re-executes the case of a replay file against the current tree.
func Replay(path string) int {
	b, err := os.ReadFile(path)
	if err != nil {
		fmt.Fprintln(os.Stderr, err)
		return 2
	}
	var rep struct {
		Property string `json:"property"`
		Tier     string `json:"tier"`
		Seed     uint64 `json:"seed"`
		Idx      int    `json:"idx"`
		Sig      string `json:"sig"`
	}
	if err := json.Unmarshal(b, &rep); err != nil {
		fmt.Fprintln(os.Stderr, err)
		return 2
	}
	p := Props[rep.Property]
	if p == nil {
		fmt.Fprintln(os.Stderr, "unknown property", rep.Property)
		return 2
	}
	if rep.Idx < 0 {
		// the violation was found by a parent-side leg of the check (e.g. the native fuzzer or a race report):
		// it is replayed by re-running the check itself
		fmt.Printf("replay of %s: parent-side finding (sig %s): re-running the %s check\n", rep.Property, rep.Sig, rep.Tier)
		return ParentMain(p, rep.Tier)
	}
	bin := exe()
	if p.Race {
		bin = RaceBin()
	}
	cmd := exec.Command(bin, "child", p.ID, rep.Tier, strconv.FormatUint(rep.Seed, 10), strconv.Itoa(rep.Idx), strconv.Itoa(rep.Idx+1))
	cmd.Stderr = os.Stderr
	out, err := cmd.Output()
	fmt.Printf("%s", out)
	if err != nil {
		fmt.Printf("VIOLATION property=%s replay=%s\n  child: %v\n", p.ID, path, err)
		return 1
	}
	for _, l := range bytes.Split(out, []byte("\n")) {
		var ln line
		if json.Unmarshal(l, &ln) == nil && ln.R != nil && len(ln.R.Violations) > 0 {
			fmt.Printf("VIOLATION property=%s replay=%s\n", p.ID, path)
			return 1
		}
	}
	fmt.Printf("replay of %s idx=%d: no violation on the current tree\n", rep.Property, rep.Idx)
	return 0
}

// RaceBin is the race-detector build of this binary (built by bin/check).
func RaceBin() string {
	if b := os.Getenv("VERIF_RACE_BIN"); b != "" {
		return b
	}
	return filepath.Join(Root, "work", "bin", "vcheck-race")
}
