package main

import (
	"fmt"
	"strings"
	"time"

	"github.com/cybergarage/go-redis/redis"
	"verif/double"
	"verif/resp"
	"verif/rng"
	"verif/sconn"
)

const serveWait = 60 * time.Second // wall-clock watchdog only; firing = inconclusive

// pipeRun is what one scripted connection run produced.
type pipeRun struct {
	double.ServeResult
	Frames    []resp.Value
	FrameEnds []int
	Rest      int    // trailing bytes that do not form a complete frame
	Bad       string // strict-decoder complaint
	BadOff    int
	ReqEnds   []int // end offset of each request in the input stream
}

func newServer(h redis.UserCommandHandler) *redis.Server {
	srv := redis.NewServer()
	srv.SetCommandHandler(h)
	return srv
}

func encodeReqs(reqs []resp.Value) (stream []byte, ends []int) {
	for _, r := range reqs {
		stream = append(stream, resp.Encode(r)...)
		ends = append(ends, len(stream))
	}
	return
}

// chunkings
const (
	chWhole  = "whole"
	chPerReq = "per-request"
	chByte   = "1-byte"
	chRandom = "random"
)

func makeChunks(stream []byte, ends []int, how string, r *rng.R) [][]byte {
	switch how {
	case chWhole:
		return [][]byte{stream}
	case chPerReq:
		return chunkAt(stream, ends)
	case chByte:
		return fixedChunks(stream, 1, 0)
	case chRandom:
		return chunkAt(stream, randomCuts(r, len(stream), 1+r.Intn(8)))
	}
	if strings.HasPrefix(how, "split@") {
		var o int
		fmt.Sscanf(how, "split@%d", &o)
		return chunkAt(stream, []int{o})
	}
	return [][]byte{stream}
}

func runPipe(srv *redis.Server, reqs []resp.Value, chunks [][]byte, script sconn.Script) pipeRun {
	stream, ends := encodeReqs(reqs)
	_ = stream
	script.Chunks = chunks
	c := sconn.New(script)
	res := double.Serve(srv, c, serveWait)
	pr := pipeRun{ServeResult: res, ReqEnds: ends}
	pr.Frames, pr.FrameEnds, pr.Rest, pr.Bad, pr.BadOff = resp.DecodeAll(res.Snap.Out)
	return pr
}

// framesAt counts complete frames in out[:n]; partial reports a trailing
// incomplete or invalid frame.
func framesAt(ends []int, outLen int, totalOut int, rest int) (frames int, partial bool) {
	for _, e := range ends {
		if e <= outLen {
			frames++
		}
	}
	last := 0
	if frames > 0 {
		last = ends[frames-1]
	}
	return frames, outLen > last
}

func reqsDelivered(reqEnds []int, delivered int) int {
	n := 0
	for _, e := range reqEnds {
		if e <= delivered {
			n++
		}
	}
	return n
}

func reqStrings(reqs []resp.Value) []string {
	out := make([]string, len(reqs))
	for i, r := range reqs {
		out[i] = clipS(r.String(), 160)
	}
	return out
}

func cmdName(v resp.Value) string {
	if v.K == '*' && len(v.A) > 0 && v.A[0].K == '$' && !v.A[0].Null {
		return strings.ToUpper(string(v.A[0].B))
	}
	return "?"
}
