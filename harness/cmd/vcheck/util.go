package main

import (
	"encoding/hex"
	"fmt"

	"verif/resp"
)

func clipS(s string, n int) string {
	if len(s) > n {
		return s[:n] + "…"
	}
	return s
}

func hexClip(b []byte, n int) string {
	if len(b) > n {
		return fmt.Sprintf("%s…(%d bytes)", hex.EncodeToString(b[:n]), len(b))
	}
	return hex.EncodeToString(b)
}

// kindPath summarises the shape of a value for violation signatures.
func kindPath(v resp.Value) string {
	switch v.K {
	case '*':
		if len(v.A) == 0 {
			return "*0"
		}
		return "*(" + kindPath(v.A[0]) + "…)"
	case '$':
		if v.Null {
			return "$nil"
		}
		if len(v.B) == 0 {
			return "$0"
		}
		return "$" + payloadClass(v.B)
	}
	return string(v.K) + payloadClass(v.B)
}

func payloadClass(b []byte) string {
	cls := ""
	for _, c := range b {
		switch {
		case c == '\r' && !contains(cls, 'R'):
			cls += "R"
		case c == '\n' && !contains(cls, 'N'):
			cls += "N"
		case c == 0 && !contains(cls, 'Z'):
			cls += "Z"
		}
	}
	if cls == "" {
		return "p"
	}
	return cls
}

func contains(s string, c byte) bool {
	for i := 0; i < len(s); i++ {
		if s[i] == c {
			return true
		}
	}
	return false
}

func diffClass(got, want []byte) string {
	switch {
	case len(got) < len(want):
		return "short"
	case len(got) > len(want):
		return "long"
	}
	return "differs"
}

func valueDiff(got, want resp.Value) string {
	switch {
	case got.K != want.K:
		return fmt.Sprintf("type %c!=%c", got.K, want.K)
	case got.Null != want.Null:
		return "nullness"
	case got.K == '*' && len(got.A) != len(want.A):
		return "arity"
	case got.K == '*':
		for i := range got.A {
			if !resp.Equal(got.A[i], want.A[i]) {
				return "elem:" + valueDiff(got.A[i], want.A[i])
			}
		}
	}
	return "payload"
}
