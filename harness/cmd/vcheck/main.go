// vcheck: runtime-monitoring checks for cybergarage/go-redis.
//
//	vcheck run <ID> <quick|thorough>
//	vcheck child <ID> <tier> <seed> <from> <to>
//	vcheck replay <path>
package main

import (
	"fmt"
	"io"
	"os"
	"strconv"

	"github.com/cybergarage/go-logger/log"
	"verif/run"
)

func main() {
	log.SetSharedLogger(nil)
	_ = io.Discard
	if len(os.Args) < 2 {
		usage()
	}
	switch os.Args[1] {
	case "run":
		if len(os.Args) < 4 {
			usage()
		}
		p := run.Props[os.Args[2]]
		if p == nil {
			fmt.Fprintln(os.Stderr, "unknown property", os.Args[2])
			os.Exit(2)
		}
		tier := os.Args[3]
		if tier != "quick" && tier != "thorough" {
			usage()
		}
		if c, ok := custom[p.ID]; ok {
			os.Exit(c(p, tier))
		}
		os.Exit(run.ParentMain(p, tier))
	case "child":
		if len(os.Args) < 7 {
			usage()
		}
		p := run.Props[os.Args[2]]
		seed, _ := strconv.ParseUint(os.Args[4], 10, 64)
		from, _ := strconv.Atoi(os.Args[5])
		to, _ := strconv.Atoi(os.Args[6])
		run.ChildMain(p, os.Args[3], seed, from, to)
	case "replay":
		if len(os.Args) < 3 {
			usage()
		}
		os.Exit(run.Replay(os.Args[2]))
	default:
		if f, ok := extra[os.Args[1]]; ok {
			os.Exit(f(os.Args[2:]))
		}
		usage()
	}
}

// custom parents (properties that need more than the generic batch runner)
var custom = map[string]func(p *run.Prop, tier string) int{}

// extra sub-commands (helper child modes)
var extra = map[string]func(args []string) int{}

func usage() {
	fmt.Fprintln(os.Stderr, "usage: vcheck run <ID> quick|thorough | vcheck replay <path>")
	os.Exit(2)
}
