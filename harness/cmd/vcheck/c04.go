package main

import (
	"bytes"
	"fmt"
	"strings"

	exsrv "github.com/cybergarage/go-redis/examples/go-redisd/server"
	"github.com/cybergarage/go-redis/redis"
	"github.com/cybergarage/go-redis/redis/proto"
	"verif/double"
	"verif/gen"
	"verif/grammar"
	"verif/resp"
	"verif/rng"
	"verif/run"
	"verif/sconn"
)

var c04 struct {
	seed uint64
	tier string
}

type c04case struct {
	Kind    string // toplevel | handler-result | example-store
	Reqs    []resp.Value
	Script  string                         // description of the handler script
	Mk      func() (*redis.Message, error) // handler result factory (handler-result kind)
	Hostile bool
}

var forged = []string{"\r\n", "\r\n+OK\r\n", "\r\n:1\r\n", "\r\n$-1\r\n", "\r\n*1\r\n", "x\r\n+OK\r\n-y", "\n", "\r", "\r\n$3\r\nfoo\r\n", "a\r\n\r\n"}

func hostileString(r *rng.R) string {
	if r.Chance(1, 4) {
		// every length up to 300 occurs (texts built from it land on every buffer size), CR LF and a forged frame inside
		n := 4 + r.Intn(297)
		b := r.From([]byte("abcxyz019 "), n)
		copy(b[r.Intn(n-3):], "\r\n")
		if n > 12 {
			copy(b[r.Intn(n-8):], "\r\n+OK\r\n")
		}
		return string(b)
	}
	switch r.Intn(5) {
	case 0:
		return rng.Pick(r, forged)
	case 1:
		return string(r.From([]byte("ab\r\n+-:$*01"), 1+r.Intn(12)))
	case 2:
		return string(r.Bytes(1 + r.Intn(40)))
	case 3:
		return "k" + rng.Pick(r, forged) + "z"
	}
	return string(r.From([]byte("abc019"), 1+r.Intn(5)))
}

func c04toplevel(r *rng.R, tok string) resp.Value {
	hs := func() []byte { return []byte(hostileString(r)) }
	line := func() []byte { return gen.Line(r, 20) }
	switch r.Intn(16) {
	case 0:
		return resp.Value{K: '+', B: line()}
	case 1:
		return resp.Value{K: '-', B: line()}
	case 2:
		return resp.Int(int64(r.Intn(100)))
	case 3:
		return resp.Bulk(hs())
	case 4:
		return resp.NullBulk()
	case 5:
		return resp.Array() // empty array
	case 6:
		return resp.Value{K: '*', Null: true}
	case 7:
		return resp.Array(resp.NullBulk(), resp.BulkS("x")) // null command name
	case 8:
		return resp.Array(resp.Int(1), resp.Status("OK"), resp.Error("E")) // array of non-bulk
	case 9:
		return resp.Array(resp.Array(resp.BulkS("PING"))) // nested command
	case 10:
		return resp.Array(resp.Array(resp.Array()), resp.BulkS("x"))
	case 11:
		return resp.Array(resp.Array(resp.NullBulk()))
	case 12:
		return resp.Array(resp.Status("PING"))
	case 13, 14:
		// command array with hostile name
		return resp.CmdB(hs(), hs())
	}
	// command with hostile arguments
	name := rng.Pick(r, []string{"GET", "SET", "CONFIG", "ECHO", "PING", "KEYS", "HGET", "SELECT", "AUTH", "EXPIRE", "ZADD", "SCAN", "LPOP", "INCRBY", "ZRANGE", "STRLEN", "GETRANGE"})
	args := [][]byte{[]byte(name)}
	for i := 0; i < 1+r.Intn(3); i++ {
		args = append(args, hs())
	}
	return resp.CmdB(args...)
}

type hres struct {
	desc string
	mk   func() (*redis.Message, error)
}

func c04handlerResult(r *rng.R) hres {
	payload := []byte(hostileString(r))
	text := hostileString(r)
	raw := func(t proto.MessageType, b []byte) *redis.Message { return proto.NewMessageWithType(t).SetBytes(b) }
	switch r.Intn(16) {
	case 14:
		return hres{fmt.Sprintf("message of an unknown type %q", payload), func() (*redis.Message, error) { return raw(proto.MessageType(9), payload), nil }}
	case 15:
		return hres{fmt.Sprintf("array holding a message of an unknown type %q", payload), func() (*redis.Message, error) {
			m := redis.NewArrayMessage()
			m.Append(raw(proto.BulkMessage, payload))
			m.Append(raw(proto.MessageType(9), payload))
			m.Append(raw(proto.BulkMessage, payload))
			return m, nil
		}}
	case 0:
		return hres{fmt.Sprintf("status %q", payload), func() (*redis.Message, error) { return raw(proto.StringMessage, payload), nil }}
	case 1:
		return hres{fmt.Sprintf("error-message %q", payload), func() (*redis.Message, error) { return raw(proto.ErrorMessage, payload), nil }}
	case 2:
		return hres{fmt.Sprintf("integer-message %q", payload), func() (*redis.Message, error) { return raw(proto.IntegerMessage, payload), nil }}
	case 3:
		return hres{fmt.Sprintf("bulk %q", payload), func() (*redis.Message, error) { return raw(proto.BulkMessage, payload), nil }}
	case 4:
		return hres{"nil bulk", func() (*redis.Message, error) { return redis.NewNilMessage(), nil }}
	case 5:
		return hres{"nil message, nil error", func() (*redis.Message, error) { return nil, nil }}
	case 6:
		return hres{fmt.Sprintf("nil message, error %q", text), func() (*redis.Message, error) { return nil, fmt.Errorf("%s", text) }}
	case 7:
		return hres{fmt.Sprintf("message and error %q", text), func() (*redis.Message, error) { return redis.NewBulkMessage("x"), fmt.Errorf("%s", text) }}
	case 8:
		return hres{fmt.Sprintf("array with status/error elements %q", payload), func() (*redis.Message, error) {
			m := redis.NewArrayMessage()
			m.Append(raw(proto.StringMessage, payload))
			m.Append(raw(proto.ErrorMessage, payload))
			m.Append(raw(proto.BulkMessage, payload))
			m.Append(redis.NewNilMessage())
			return m, nil
		}}
	case 9:
		return hres{"nested arrays", func() (*redis.Message, error) {
			in := redis.NewArrayMessage()
			in.Append(raw(proto.StringMessage, payload))
			in.Append(redis.NewArrayMessage())
			m := redis.NewArrayMessage()
			m.Append(in)
			m.Append(raw(proto.IntegerMessage, []byte("7")))
			return m, nil
		}}
	case 10:
		return hres{"empty bulk", func() (*redis.Message, error) { return redis.NewBulkMessage(""), nil }}
	case 11:
		return hres{"empty array", func() (*redis.Message, error) { return redis.NewArrayMessage(), nil }}
	case 12:
		return hres{"float message", func() (*redis.Message, error) { return redis.NewFloatMessage(1.5), nil }}
	}
	return hres{"array message built without an array", func() (*redis.Message, error) { return proto.NewMessageWithType(proto.ArrayMessage), nil }}
}

func c04get(idx int) c04case {
	r := rng.New(c04.seed, rng.Str("C04"), uint64(idx))
	tok := fmt.Sprintf("t%d", idx)
	switch idx % 3 {
	case 0:
		n := 1 + r.Intn(5)
		c := c04case{Kind: "toplevel", Hostile: true}
		for i := 0; i < n; i++ {
			c.Reqs = append(c.Reqs, c04toplevel(r, tok))
		}
		c.Reqs = append(c.Reqs, resp.Cmd("ECHO", tok))
		return c
	case 1:
		// a core command whose single handler call returns the scripted result
		specs := []string{"GET", "HGET", "LRANGE", "SMEMBERS", "ZRANGE", "TYPE", "DEL", "KEYS", "LPOP", "SET", "HGETALL", "ZSCORE", "MGET", "HMGET", "STRLEN", "HKEYS", "HVALS", "HLEN", "SCARD", "ZCARD", "INCR", "APPEND", "GETRANGE", "ZREVRANGE", "HEXISTS", "HSTRLEN", "SISMEMBER", "MSETNX"}
		v := grammar.Generate(grammar.ByName[rng.Pick(r, specs)], r, tok)
		h := c04handlerResult(r)
		return c04case{Kind: "handler-result", Reqs: []resp.Value{v.Value(), resp.Cmd("ECHO", tok)}, Script: h.desc, Mk: h.mk, Hostile: true}
	}
	// example store: write hostile values, read them back with every read command
	c := c04case{Kind: "example-store", Hostile: true}
	k := func(i int) string { return fmt.Sprintf("%s:k%d", tok, i) }
	v1, v2, f1, m1 := hostileString(r), hostileString(r), hostileString(r), hostileString(r)
	add := func(args ...string) { c.Reqs = append(c.Reqs, resp.Cmd(args...)) }
	add("SET", k(0), v1)
	add("MSET", k(1), v2, hostileString(r), v1)
	add("HSET", k(2), f1, v1)
	add("HSET", k(2), "f2", v2)
	add("RPUSH", k(3), v1, v2, m1)
	add("SADD", k(4), m1, v1)
	add("ZADD", k(5), "1", m1, "2", v2)
	add("GET", k(0))
	add("GETRANGE", k(0), "0", "-1")
	add("MGET", k(0), k(1), "nosuch")
	add("GETSET", k(0), v2)
	add("HGET", k(2), f1)
	add("HGETALL", k(2))
	add("HMGET", k(2), f1, "f2", "nosuch")
	add("HKEYS", k(2))
	add("HVALS", k(2))
	add("LRANGE", k(3), "0", "-1")
	add("LINDEX", k(3), "0")
	add("LPOP", k(3))
	add("RPOP", k(3), "2")
	add("SMEMBERS", k(4))
	add("ZRANGE", k(5), "0", "-1", "WITHSCORES")
	add("ZRANGEBYSCORE", k(5), "-inf", "+inf")
	add("ZREVRANGE", k(5), "0", "-1")
	add("ZSCORE", k(5), m1)
	add("KEYS", "*")
	add("SCAN", "0", "COUNT", "1000")
	add("TYPE", k(0))
	add("RENAME", k(0), hostileString(r))
	add("KEYS", "*")
	add("ECHO", tok)
	return c
}

func c04run(idx int) run.Result {
	var res run.Result
	res.Idx = idx
	c := c04get(idx)
	res.Classes = []string{c.Kind}
	stream, ends := encodeReqs(c.Reqs)
	res.Key = gen.Hash64(stream) ^ gen.Hash64([]byte(c.Script))
	res.NonTrivial = true
	desc := func(extra map[string]any) any {
		m := map[string]any{"kind": c.Kind, "requests": reqStrings(c.Reqs), "handler_script": c.Script, "stream_hex": hexClip(stream, 600)}
		for k, v := range extra {
			m[k] = v
		}
		return m
	}
	mkServer := func() *redis.Server {
		switch c.Kind {
		case "example-store":
			return exsrv.NewServer().Server
		case "handler-result":
			rec := double.NewRec()
			first := true
			rec.Script = func(cl *double.Call) (*redis.Message, error, bool) {
				if first {
					first = false
					m, e := c.Mk()
					return m, e, true
				}
				return nil, nil, false
			}
			return newServer(rec)
		}
		return newServer(double.NewRec())
	}
	sigOf := func(clause string, i int) string {
		k := "?"
		if i >= 0 && i < len(c.Reqs) {
			k = topKind(c.Reqs[i])
		}
		s := "C04:" + c.Kind + ":" + clause + ":" + k
		if c.Kind == "handler-result" {
			s += ":" + scriptClass(c.Script)
		}
		return s
	}
	pr := runPipe(mkServer(), c.Reqs, chunkAt(stream, ends), sconn.Script{End: sconn.EOF})
	res.Count("frames_decoded", int64(len(pr.Frames)))
	res.Count("requests", int64(len(c.Reqs)))
	if pr.TimedOut {
		res.Inconclusive = "watchdog: serve did not return"
		return res
	}
	if pr.Panic != "" {
		res.Violate("C04:panic:"+panicFrame(pr.Stack), "a request the server cannot interpret yields an error reply or a closed connection", pr.Panic+"\n"+clipS(pr.Stack, 1500), desc(nil))
		return res
	}
	out := pr.Snap.Out
	// rule 1: the whole output is a concatenation of complete valid frames
	if pr.Bad != "" || pr.Rest != 0 {
		i := reqIndexOfOutOffset(pr, len(out)-pr.Rest)
		res.Violate(sigOf("unframed", i), "everything written is a concatenation of complete, valid RESP values", fmt.Sprintf("after %d valid frames: %q at output offset %d, %d bytes left: %s", len(pr.Frames), pr.Bad, pr.BadOff, pr.Rest, hexClip(out[len(out)-pr.Rest:], 120)), desc(map[string]any{"out_hex": hexClip(out, 600)}))
		return res
	}
	// rule 2: one frame per request (or nothing and the connection is closed afterwards)
	wbs := pr.Snap.WouldBlocks
	closedAt := -1
	for i := 0; i < len(c.Reqs) && i+1 < len(wbs); i++ {
		seg := out[wbs[i].OutLen:wbs[i+1].OutLen]
		vs, _, rest, bad, _ := resp.DecodeAll(seg)
		if len(seg) == 0 {
			closedAt = i
			break
		}
		if bad != "" || rest != 0 || len(vs) != 1 {
			res.Violate(sigOf("frames-per-request", i), "each request is answered by exactly one frame (client- or handler-supplied bytes never add, split or truncate a frame)", fmt.Sprintf("request %d (%s) produced %d frames (rest=%d bad=%q): %s", i, clipS(c.Reqs[i].String(), 120), len(vs), rest, bad, hexClip(seg, 160)), desc(nil))
			return res
		}
	}
	if closedAt < 0 && len(pr.Frames) < len(c.Reqs) && pr.Snap.Closed && len(wbs) <= len(c.Reqs) {
		// the server closed the connection while handling request len(wbs)-1 (no further read happened)
		closedAt = len(wbs) - 1
	}
	if closedAt >= 0 {
		res.Count("closed_instead_of_reply", 1)
		if !pr.Snap.Closed || !pr.Returned || len(out) != wbs[closedAt].OutLen {
			res.Violate(sigOf("silent-request", closedAt), "a request gets one frame, or the connection is closed", fmt.Sprintf("request %d got no reply but the connection went on", closedAt), desc(nil))
			return res
		}
	} else if len(pr.Frames) != len(c.Reqs) {
		res.Violate(sigOf("count", len(pr.Frames)), "one frame per request", fmt.Sprintf("%d requests, %d frames", len(c.Reqs), len(pr.Frames)), desc(map[string]any{"out_hex": hexClip(out, 600)}))
		return res
	} else {
		// the trailing ECHO proves the stream is still in sync
		last := pr.Frames[len(pr.Frames)-1]
		wantEcho := c.Reqs[len(c.Reqs)-1].A[1]
		if !resp.Equal(last, wantEcho) {
			res.Violate(sigOf("desync", len(c.Reqs)-1), "following requests are answered normally", fmt.Sprintf("trailing ECHO answered %s", clipS(last.String(), 120)), desc(nil))
			return res
		}
	}
	// rule 3 is implied by strict decoding (no CR/LF inside status/error frames)
	// replay in one chunk: byte-identical output
	pr2 := runPipe(mkServer(), c.Reqs, [][]byte{stream}, sconn.Script{End: sconn.EOF})
	if pr2.Panic != "" || pr2.TimedOut {
		res.Inconclusive = "replay did not complete"
		return res
	}
	if !bytes.Equal(pr2.Snap.Out, out) && c.Kind != "example-store" {
		res.Violate(sigOf("chunking", -1), "the reply stream does not depend on chunking", "whole-stream delivery produced different bytes", desc(map[string]any{"out_hex": hexClip(out, 300), "out2_hex": hexClip(pr2.Snap.Out, 300)}))
		return res
	}
	if c.Kind == "example-store" {
		vs, _, rest, bad, _ := resp.DecodeAll(pr2.Snap.Out)
		if bad != "" || rest != 0 || len(vs) != len(c.Reqs) {
			res.Violate(sigOf("unframed-whole", -1), "everything written is a concatenation of complete, valid RESP values", fmt.Sprintf("whole delivery: %d frames rest=%d bad=%q", len(vs), rest, bad), desc(nil))
			return res
		}
	}
	// a reader that stalls in the middle of one reply for longer than any write deadline and then reads on:
	// whatever the server does about the timed-out write, the bytes the client ends up with are complete frames,
	// apart from the cut frame if that is the last thing ever written
	if nw := len(pr.Snap.Writes); nw > 0 {
		rs := rng.New(c04.seed, rng.Str("C04stall"), uint64(idx))
		at := 1 + rs.Intn(nw)
		keep := rs.Intn(pr.Snap.Writes[at-1].N + 1)
		pr3 := runPipe(mkServer(), c.Reqs, chunkAt(stream, ends), sconn.Script{End: sconn.EOF, StallWriteAt: at, StallWriteKeep: keep})
		if pr3.Panic != "" || pr3.TimedOut {
			res.Inconclusive = "stalled-reader run did not complete"
			return res
		}
		res.Count("stalled_reader_runs", 1)
		res.Count("write_deadlines_armed", int64(pr3.Snap.WriteDeadlines))
		cut := -1
		for i, w := range pr3.Snap.Writes {
			if w.Timeout {
				cut = i
				res.Count("writes_cut_by_deadline", 1)
			} else if cut >= 0 && w.N > 0 {
				_, _, rest3, bad3, off3 := resp.DecodeAll(pr3.Snap.Out)
				if bad3 != "" || rest3 != 0 {
					res.Violate("C04:"+c.Kind+":write-after-cut-frame", "everything written is a concatenation of complete, valid RESP values, also when a reply write is cut short by a write deadline (slow reader)",
						fmt.Sprintf("write %d timed out after %d of its bytes, yet %d more bytes were written at offset %d; the client reads %q (decoder: %q at %d)", cut+1, pr3.Snap.Writes[cut].N, w.N, w.Off, clipS(string(pr3.Snap.Out[pr3.Snap.Writes[cut].Off:]), 120), bad3, off3),
						desc(map[string]any{"stall_write": at, "stall_keep": keep, "out_hex": hexClip(pr3.Snap.Out, 600)}))
					return res
				}
			}
		}
	}
	// a slow reader and a second client: one reply write of this connection is held half-way (as a write into a
	// full socket buffer is) while another connection of the same server gets replies of its own; when the write
	// goes on, the connection must still receive exactly the bytes of the undisturbed run
	if nw := len(pr.Snap.Writes); nw > 0 && c.Kind != "example-store" {
		rs := rng.New(c04.seed, rng.Str("C04pause"), uint64(idx))
		at := 1 + rs.Intn(nw)
		keep := rs.Intn(pr.Snap.Writes[at-1].N + 1)
		srv := mkServer()
		ca := sconn.New(sconn.Script{Chunks: chunkAt(stream, ends), End: sconn.EOF, PauseWriteAt: at, PauseWriteKeep: keep})
		waitA := double.Start(srv, ca, nil)
		parked := ca.WaitWritePaused(serveWait)
		var other []resp.Value
		for k := 0; k < 3; k++ {
			other = append(other, resp.Cmd("ECHO", strings.Repeat(string(rune('A'+k)), 1+rs.Intn(3*pr.Snap.Writes[at-1].N+8))))
		}
		ostream, oends := encodeReqs(other)
		prB := runPipe(srv, other, chunkAt(ostream, oends), sconn.Script{End: sconn.EOF})
		ca.ResumeWrite()
		ra := waitA(serveWait)
		switch {
		case prB.TimedOut || ra.TimedOut:
			res.Inconclusive = "two-connection run did not complete"
			return res
		case parked:
			res.Count("paused_write_runs", 1)
			for i, f := range prB.Frames {
				if i < len(other) && !resp.Equal(f, other[i].A[1]) {
					res.Violate("C04:"+c.Kind+":second-connection-disturbed", "everything the server writes on a connection is a concatenation of complete, valid RESP values (its own replies)", fmt.Sprintf("the second connection's ECHO %d answered %s", i, clipS(f.String(), 100)), desc(nil))
					return res
				}
			}
			if !bytes.Equal(ra.Snap.Out, out) {
				_, _, rest4, bad4, off4 := resp.DecodeAll(ra.Snap.Out)
				res.Violate("C04:"+c.Kind+":reply-changed-while-being-written", "everything the server writes on a connection is a concatenation of complete, valid RESP values, also when the reader is slow and other connections are served meanwhile",
					fmt.Sprintf("write %d was held after %d bytes while another connection received 3 replies; the connection then received other bytes than in the undisturbed run (strict decoder: rest=%d bad=%q at %d): %s", at, keep, rest4, bad4, off4, hexClip(ra.Snap.Out, 200)),
					desc(map[string]any{"pause_write": at, "pause_keep": keep, "out_hex": hexClip(ra.Snap.Out, 600), "undisturbed_out_hex": hexClip(out, 600)}))
				return res
			}
		}
	}
	// Several requests with LARGE replies and a protocol error behind them, all delivered by one read: whatever the
	// server buffers on the way out, what it has written when it closes the connection is a sequence of COMPLETE
	// frames - one per complete request.
	if idx%5 == 2 {
		r5 := rng.New(c04.seed, rng.Str("C04big"), uint64(idx))
		k := 2 + r5.Intn(5)
		size := rng.Pick(r5, []int{1500, 3000, 4000, 4096, 5000, 9000})
		big := resp.Bulk(r5.Bytes(size))
		rec := double.NewRec()
		rec.Script = func(cl *double.Call) (*redis.Message, error, bool) { return double.ToMessage(big), nil, true }
		var reqs []resp.Value
		for i := 0; i < k; i++ {
			reqs = append(reqs, resp.Cmd("GET", fmt.Sprint("big", i)))
		}
		bstream, _ := encodeReqs(reqs)
		tail := rng.Pick(r5, []string{"?junk\r\n", "$x\r\n", "*2\r\n$3\r\nGET\r\n!", "$3\r\nabcdef", "*x\r\n"})
		pb := runPipe(newServer(rec), reqs, [][]byte{append(append([]byte{}, bstream...), tail...)}, sconn.Script{End: sconn.EOF})
		res.Count("big_reply_pipelines_before_a_protocol_error", 1)
		if pb.TimedOut {
			res.Inconclusive = "watchdog"
			return res
		}
		fr, _, rest, bad, _ := resp.DecodeAll(pb.Snap.Out)
		nBig := 0
		for _, f := range fr {
			if resp.Equal(f, big) {
				nBig++
			}
		}
		if pb.Panic != "" || bad != "" || rest != 0 || nBig != k {
			res.Violate("C04:big-replies-before-protocol-error", "everything the server writes on a connection is a concatenation of complete, valid RESP values: exactly one reply per complete request (then possibly one error reply)",
				fmt.Sprintf("%d GETs answered with %d-byte values and %q behind them in one read: %d complete frames (%d of them the value), %d bytes of an incomplete frame left, bad=%q panic=%q, connection closed=%v", k, size, tail, len(fr), nBig, rest, bad, pb.Panic, pb.Snap.Closed),
				desc(map[string]any{"requests": k, "value_size": size, "tail": tail, "out_len": len(pb.Snap.Out)}))
			return res
		}
	}
	if idx%151 == 0 {
		res.Sample = desc(map[string]any{"out_hex": hexClip(out, 200)})
	}
	return res
}

func reqIndexOfOutOffset(pr pipeRun, off int) int {
	wbs := pr.Snap.WouldBlocks
	for i := 0; i+1 < len(wbs); i++ {
		if off >= wbs[i].OutLen && off < wbs[i+1].OutLen {
			return i
		}
	}
	return len(wbs) - 2
}

func topKind(v resp.Value) string {
	if v.K != '*' {
		return "toplevel-" + string(v.K)
	}
	if v.Null {
		return "null-array"
	}
	if len(v.A) == 0 {
		return "empty-array"
	}
	f := v.A[0]
	if f.K == '*' {
		return "nested-array"
	}
	if f.K == '$' && f.Null {
		return "null-command-name"
	}
	if f.K != '$' {
		return "non-bulk-command-name"
	}
	n := cmdName(v)
	if _, ok := grammar.ByName[n]; ok {
		return n
	}
	return "unknown-command"
}

func scriptClass(s string) string {
	for i := 0; i < len(s); i++ {
		if s[i] == '"' {
			return s[:i]
		}
	}
	return s
}

func init() {
	run.Register(&run.Prop{
		ID: "C04", Level: "exploration",
		Rule: func(tier string) string {
			return "case = one scripted connection, requests delivered one per chunk, in three rotating kinds: (toplevel) 1..5 client values of every RESP type at top level - status, error, integer, bulk, null bulk, empty/null array, null/non-bulk/nested command names - and command arrays whose name and arguments carry CR, LF, CRLF+forged frames and arbitrary bytes; (handler-result) a command whose handler call returns each message type with hostile payload, nil message, errors with hostile text, message+error, arrays with status/error elements, nested arrays, an array message built without an array, a message whose type is none of the five (alone and inside an array); (example-store) hostile values written to the bundled example store and read back with every read command. Oracle: the whole output decodes under an independent strict RESP2 decoder with nothing left over; the bytes written between two consecutive would-block reads are exactly one frame (or none and the connection is closed); a trailing ECHO is answered exactly; whole-stream delivery gives byte-identical output; in a further run the reader stalls inside a seeded reply write for longer than any write deadline and then reads on (virtual time: the scripted transport cuts that write short iff the server armed a deadline) and what the client reads must still be complete frames; in yet another run a seeded reply write is held half-way (slow reader; the transport keeps the server's slice and takes the rest of it only when resumed) while a second connection of the same server gets three ECHO replies, and the first connection must still receive exactly the bytes of the undisturbed run; every fifth case also sends 2..6 GETs answered with 1.5..9 KB values and a malformed frame behind them in ONE read: what the server has written when it closes must be exactly those complete frames (and possibly one error). distinct = hash of request stream + handler script; all cases are non-trivial (hostile bytes or non-command values)"
		},
		Assumptions: []string{"integer frames are judged on framing only (a handler may put any CR/LF-free text into an integer message)"},
		Setup: func(tier string, seed uint64) int {
			resp.LaxIntegers = true
			c04.seed, c04.tier = seed, tier
			return map[string]int{"quick": 30000, "thorough": 3000000}[tier]
		},
		Run: c04run,
		Describe: func(idx int) any {
			c := c04get(idx)
			return map[string]any{"sig": c.Kind + ":" + scriptClass(c.Script), "kind": c.Kind, "requests": reqStrings(c.Reqs), "script": c.Script}
		},
		Chunk:         500,
		MinConclusive: 1000,
	})
}
