package main

import (
	"fmt"
	"runtime"
	"sort"
	"strings"
	"sync"
	"sync/atomic"
	"time"

	exsrv "github.com/cybergarage/go-redis/examples/go-redisd/server"
	"github.com/cybergarage/go-redis/redis"
	"verif/double"
	"verif/gen"
	"verif/lin"
	"verif/refstore"
	"verif/resp"
	"verif/rng"
	"verif/run"
	"verif/sconn"
)

var c16 struct {
	seed uint64
	tier string
}

// yielding wraps a handler and yields before the primitives string commands are built from.
type yielding struct {
	redis.UserCommandHandler
	y func()
}

func (h yielding) Get(c *redis.Conn, key string) (*redis.Message, error) {
	h.y()
	return h.UserCommandHandler.Get(c, key)
}
func (h yielding) Set(c *redis.Conn, key string, val string, opt redis.SetOption) (*redis.Message, error) {
	h.y()
	return h.UserCommandHandler.Set(c, key, val, opt)
}
func (h yielding) Del(c *redis.Conn, keys []string) (*redis.Message, error) {
	h.y()
	return h.UserCommandHandler.Del(c, keys)
}

var c16profiles = []struct {
	Name string
	Ops  []string
}{
	{"incr", []string{"INCR", "INCR", "DECRBY", "GET"}},
	{"incr-only", []string{"INCR"}},
	{"append", []string{"APPEND", "APPEND", "GET"}},
	{"setnx-del", []string{"SETNX", "SETNX", "DEL", "GET"}},
	{"setnx-only", []string{"SETNX"}},
	{"getset", []string{"GETSET", "GETSET", "GET", "SET"}},
	{"msetnx", []string{"MSETNX", "MSETNX", "DEL", "GET", "SET"}},
	{"set-get", []string{"SET", "GET", "DEL"}},
	{"mixed", []string{"GET", "SET", "SETNX", "GETSET", "INCR", "DECRBY", "APPEND", "DEL"}},
}

type c16plan struct {
	TCP     bool // clients are real TCP connections to a started listener instead of hooked scripted connections
	Store   string
	Profile int
	Clients int
	Keys    int
	PerCli  int
	YieldN  int
	// Password: the server requires a password and every client authenticates before its first command
	// (connections that START unauthorized are serialized like any other once they are in)
	Password bool
}

func c16get(idx int) c16plan {
	r := rng.New(c16.seed, rng.Str("C16"), uint64(idx))
	p := c16plan{Store: []string{"example", "refstore"}[idx%2], Profile: (idx / 2) % len(c16profiles)}
	p.Clients = 2 + r.Intn(7)
	p.Keys = 1 + r.Intn(3)
	if c16profiles[p.Profile].Name == "msetnx" {
		p.Keys = 2
		p.Clients = 2 + r.Intn(3)
	}
	total := 8 + r.Intn(17)
	if c16profiles[p.Profile].Name == "msetnx" && total > 12 {
		total = 12
	}
	p.PerCli = (total + p.Clients - 1) / p.Clients
	p.YieldN = 1 + r.Intn(6)
	p.TCP = idx%8 == 5
	p.Password = idx%5 == 3
	return p
}

func decodeOut(v resp.Value) lin.Out {
	switch {
	case v.IsErr():
		return lin.Out{Kind: "err"}
	case isNil(v):
		return lin.Out{Kind: "nil"}
	case v.K == ':':
		var i int64
		fmt.Sscan(string(v.B), &i)
		return lin.Out{Kind: "int", I: i}
	}
	return lin.Out{Kind: "str", S: string(v.B)}
}

func c16run(idx int) run.Result {
	var res run.Result
	res.Idx = idx
	p := c16get(idx)
	prof := c16profiles[p.Profile]
	res.Classes = []string{"ops:" + prof.Name, "store:" + p.Store}
	var clk int64
	tick := func() int64 { return atomic.AddInt64(&clk, 1) }
	yr := rng.New(c16.seed, rng.Str("C16y"), uint64(idx))
	var ymu sync.Mutex
	yield := func() {
		ymu.Lock()
		n := yr.Intn(p.YieldN + 1)
		ymu.Unlock()
		for i := 0; i < n; i++ {
			runtime.Gosched()
		}
	}
	var srv *redis.Server
	if p.Store == "example" {
		ex := exsrv.NewServer()
		ex.Server.SetCommandHandler(yielding{ex, yield})
		srv = ex.Server
	} else {
		st := refstore.New()
		st.Yield = yield
		srv = newServer(st)
	}
	if p.Password {
		srv.SetRequirePass(c08pass)
		res.Classes = append(res.Classes, "password-required")
	}
	port := 0
	if p.TCP {
		for attempt := 0; attempt < 10 && port == 0; attempt++ {
			port = freePort()
			srv.SetPort(port)
			if srv.Start() != nil {
				port = 0
			}
		}
		if port == 0 {
			res.Inconclusive = "could not start a listener"
			return res
		}
		defer srv.Stop()
		res.Classes = append(res.Classes, "transport:tcp")
	}
	var mu sync.Mutex
	var ops []lin.Op
	var wg sync.WaitGroup
	timedOut := false
	start := make(chan struct{})
	for c := 0; c < p.Clients; c++ {
		wg.Add(1)
		go func(c int) {
			defer wg.Done()
			r := rng.New(c16.seed, rng.Str("C16c"), uint64(idx), uint64(c))
			var conn *sconn.Conn
			var wait func(time.Duration) double.ServeResult
			var tcp *tcpClient
			if p.TCP {
				t, err := dialSrv(port)
				if err != nil {
					mu.Lock()
					timedOut = true
					mu.Unlock()
					<-start
					return
				}
				tcp = t
				defer tcp.c.Close()
			} else {
				conn = sconn.New(sconn.Script{End: sconn.Hold})
				wait = double.Start(srv, conn, nil)
			}
			pos := 0
			if p.Password {
				okAuth := false
				if p.TCP {
					tcp.c.SetDeadline(time.Now().Add(serveWait))
					if v, err := tcp.do("AUTH", c08pass); err == nil && resp.Equal(v, resp.Status("OK")) {
						okAuth = true
					}
				} else {
					conn.Feed(resp.Encode(resp.Cmd("AUTH", c08pass)))
					if conn.WaitIdle(serveWait) == nil {
						out := conn.OutFrom(pos)
						pos += len(out)
						okAuth = string(out) == "+OK\r\n"
					}
				}
				if !okAuth {
					mu.Lock()
					timedOut = true
					mu.Unlock()
				}
			}
			<-start
			for n := 0; n < p.PerCli; n++ {
				op := rng.Pick(r, prof.Ops)
				in := lin.In{Op: op, Key: fmt.Sprintf("k%d", r.Intn(p.Keys))}
				uniq := fmt.Sprintf("[c%dn%02d]", c, n)
				var req resp.Value
				switch op {
				case "GET", "INCR", "DEL":
					req = resp.Cmd(op, in.Key)
				case "SET", "SETNX", "GETSET", "APPEND":
					in.Arg = uniq
					req = resp.Cmd(op, in.Key, in.Arg)
				case "DECRBY":
					in.Arg = fmt.Sprint(-(int64(1) << uint(c+1))) // distinct increments per client
					req = resp.Cmd(op, in.Key, in.Arg)
				case "MSETNX":
					in.Key, in.Key2 = "k0", "k1"
					in.Arg, in.Arg2 = uniq+"a", uniq+"b"
					req = resp.Cmd(op, in.Key, in.Arg, in.Key2, in.Arg2)
				}
				var fr []resp.Value
				var err error
				rest, bad := 0, ""
				t0 := tick()
				if p.TCP {
					tcp.c.SetDeadline(time.Now().Add(serveWait))
					_, err = tcp.c.Write(resp.Encode(req))
					var v resp.Value
					if err == nil {
						v, err = tcp.read()
					}
					fr = []resp.Value{v}
				} else {
					conn.Feed(resp.Encode(req))
					err = conn.WaitIdle(serveWait)
				}
				t1 := tick()
				if !p.TCP {
					out := conn.OutFrom(pos)
					pos += len(out)
					fr, _, rest, bad, _ = resp.DecodeAll(out)
				}
				if err != nil || bad != "" || rest != 0 || len(fr) != 1 {
					mu.Lock()
					timedOut = true
					mu.Unlock()
					break
				}
				mu.Lock()
				ops = append(ops, lin.Op{Client: c, In: in, Out: decodeOut(fr[0]), Call: t0, Return: t1})
				mu.Unlock()
			}
			if !p.TCP {
				conn.End(sconn.EOF)
				wait(serveWait)
			}
		}(c)
	}
	close(start)
	wg.Wait()
	if timedOut {
		res.Inconclusive = "an operation got no reply (history cannot be closed)"
		return res
	}
	sort.Slice(ops, func(i, j int) bool { return ops[i].Call < ops[j].Call })
	// overlap shapes actually observed (same key, intervals intersect)
	overlaps := 0
	for i := range ops {
		for j := i + 1; j < len(ops); j++ {
			if ops[j].Call > ops[i].Return {
				break
			}
			if ops[i].In.Key == ops[j].In.Key || ops[i].In.Op == "MSETNX" || ops[j].In.Op == "MSETNX" {
				a, b := ops[i].In.Op, ops[j].In.Op
				if a > b {
					a, b = b, a
				}
				res.AddSet("overlap_shapes", a+"|"+b)
				overlaps++
			}
		}
	}
	res.Count("operations", int64(len(ops)))
	res.Count("overlapping_pairs", int64(overlaps))
	var hk []string
	for _, o := range ops {
		hk = append(hk, fmt.Sprintf("%d:%s>%s", o.Client, o.In, o.Out))
	}
	res.Key = gen.Hash64([]byte(strings.Join(hk, ";")))
	res.NonTrivial = overlaps > 0
	verdict := lin.Check(ops, 60*time.Second)
	res.Count("histories:"+prof.Name, 1)
	switch verdict {
	case lin.Unknown:
		res.Inconclusive = "linearizability search timed out"
		res.Count("unknown:"+prof.Name, 1)
	case lin.Illegal:
		res.Count("illegal:"+prof.Name, 1)
		var h []string
		for _, o := range ops {
			h = append(h, fmt.Sprintf("client %d [%d,%d] %s -> %s", o.Client, o.Call, o.Return, o.In, o.Out))
		}
		kinds := map[string]bool{}
		for _, o := range ops {
			kinds[o.In.Op] = true
		}
		var ks []string
		for k := range kinds {
			ks = append(ks, k)
		}
		sort.Strings(ks)
		res.Violate("C16:illegal:"+p.Store+":{"+strings.Join(ks, ",")+"}", "every concurrent history is linearizable (equivalent to some sequential order respecting real time)",
			fmt.Sprintf("porcupine: history of %d operations by %d clients over %d key(s) on the %s store is NOT linearizable", len(ops), p.Clients, p.Keys, p.Store),
			map[string]any{"store": p.Store, "profile": prof.Name, "clients": p.Clients, "keys": p.Keys, "history": h})
	}
	if idx%97 == 0 && verdict == lin.Ok {
		var h []string
		for i, o := range ops {
			if i >= 10 {
				break
			}
			h = append(h, fmt.Sprintf("client %d [%d,%d] %s -> %s", o.Client, o.Call, o.Return, o.In, o.Out))
		}
		res.Sample = map[string]any{"store": p.Store, "profile": prof.Name, "clients": p.Clients, "first_ops": h, "overlapping_pairs": overlaps}
	}
	return res
}

func init() {
	run.Register(&run.Prop{
		ID: "C16", Level: "exploration",
		Rule: func(tier string) string {
			return "case = one short concurrent history: 2..8 client goroutines, each with its own connection (served through hook H1; every 8th history uses real TCP connections to a started listener instead; in every fifth history the server requires a password and each client authenticates first), issue 8..24 operations (<=12 with MSETNX) over 1..3 keys drawn from one of 9 operation profiles (incr, incr-only, append, setnx-del, setnx-only, getset, msetnx, set-get, mixed) against the bundled example store or the reference store, alternating; the stores are wrapped so that the handler yields (seeded Gosched bursts) before every Get/Set/Del primitive, i.e. between the framework's critical sections. Call and return events are stamped at the client boundary with one atomic logical clock (call before the request is fed, return after the complete reply frame). Written values are unique (client+counter), APPEND pieces are unique fixed-width tokens, DECRBY uses a distinct power of two per client. porcupine v1.3.0 decides linearizability against a sequential model of GET/SET/SETNX/GETSET/INCR/DECRBY/APPEND/DEL/MSETNX, partitioned by key unless MSETNX is present (60 s timeout => inconclusive). Evidence: histories per profile, illegal/unknown counts, overlapping op pairs and the distinct overlap shapes actually observed; a run without overlaps fails itself. Children are built with the race detector. non-trivial = at least one pair of operations on the same key overlapped"
		},
		Assumptions: []string{"porcupine v1.3.0 and the 9-operation sequential model are the reference", "an operation without a reply makes its history inconclusive"},
		Setup: func(tier string, seed uint64) int {
			c16.seed, c16.tier = seed, tier
			return map[string]int{"quick": 3600, "thorough": 100000}[tier]
		},
		Run: c16run,
		Describe: func(idx int) any {
			p := c16get(idx)
			return map[string]any{"sig": p.Store + ":" + c16profiles[p.Profile].Name, "plan": fmt.Sprint(p)}
		},
		Chunk:         40,
		MinConclusive: 200,
		Race:          true,
		Finish: func(a *run.Agg) {
			if len(a.Sets["overlap_shapes"]) == 0 {
				a.Extra["self_check_failed"] = "no two operations on the same key ever overlapped: nothing was decided about concurrency"
			}
		},
	})
}
