package main

import (
	"bytes"
	"fmt"
	"strings"

	"github.com/cybergarage/go-redis/redis"
	"verif/double"
	"verif/gen"
	"verif/grammar"
	"verif/resp"
	"verif/rng"
	"verif/run"
	"verif/sconn"
)

var c03 struct {
	seed uint64
	tier string
	maxN int
}

type pipeReq struct {
	Kind string // valid | ill-formed | surplus | unknown | quit
	V    *grammar.Vector
	Req  resp.Value
}

type pipeCase struct {
	Reqs   []pipeReq
	FailAt map[int]bool // handler call numbers (1-based) that return an error
}

func (p pipeCase) values() []resp.Value {
	out := make([]resp.Value, len(p.Reqs))
	for i, r := range p.Reqs {
		out[i] = r.Req
	}
	return out
}

// genPipe builds a pipeline drawn from every grammar entry. focus >= 0 forces
// request 0 to use that spec (so that every command is covered by rotation).
func genPipe(r *rng.R, idx int, maxN int, focus int, allowQuit bool) pipeCase {
	n := 1 + r.Intn(maxN)
	var pc pipeCase
	pc.FailAt = map[int]bool{}
	for i := 0; i < n; i++ {
		tok := fmt.Sprintf("t%d.%d", idx, i)
		spec := rng.Pick(r, grammar.Specs)
		if i == 0 && focus >= 0 {
			spec = grammar.Specs[focus%len(grammar.Specs)]
		}
		for spec.Name == "QUIT" && !(allowQuit && r.Chance(1, 3)) {
			spec = rng.Pick(r, grammar.Specs)
		}
		v := grammar.Generate(spec, r, tok)
		pr := pipeReq{Kind: "valid", V: v, Req: v.Value()}
		if r.Chance(1, 90) {
			// a request with more than a thousand arguments (variadic commands take them; 1024 is a capacity the
			// array reader starts with)
			cnt := rng.Pick(r, []int{1023, 1024, 1025, 1500, 2100})
			name := rng.Pick(r, []string{"DEL", "RPUSH", "SADD", "MGET", "EXISTS"})
			args := []string{name}
			if name == "RPUSH" || name == "SADD" {
				args = append(args, tok+":k")
			}
			for k := 0; k < cnt; k++ {
				args = append(args, fmt.Sprintf("%s:%d", tok, k))
			}
			pc.Reqs = append(pc.Reqs, pipeReq{Kind: "many-arguments", Req: resp.Cmd(args...)})
			continue
		}
		if r.Chance(1, 60) {
			// a request with one large argument (around 64 KiB and beyond) in the middle of the pipeline
			size := rng.Pick(r, []int{65533, 65534, 65535, 65536, 65537, 70000, 131072, 200000})
			name := rng.Pick(r, []string{"SET", "ECHO", "APPEND", "LPUSH"})
			big := string(r.From([]byte("abcdefgh\r\n"), size))
			if name == "ECHO" {
				pr = pipeReq{Kind: "large-argument", Req: resp.Cmd(name, big)}
			} else {
				pr = pipeReq{Kind: "large-argument", Req: resp.Cmd(name, tok+":k", big)}
			}
			pc.Reqs = append(pc.Reqs, pr)
			continue
		}
		if v.Quit {
			pr.Kind = "quit"
		} else {
			switch r.Intn(10) {
			case 0:
				vs := grammar.IllFormed(v, false)
				if spec.Name == "SET" && r.Bool() {
					vs = grammar.SetExclusive(tok)
				}
				if len(vs) > 0 {
					x := rng.Pick(r, vs)
					pr = pipeReq{Kind: "ill-formed", Req: x.Req}
				}
			case 1:
				pr = pipeReq{Kind: "surplus", Req: grammar.Surplus(r, v)}
			case 2:
				if r.Bool() {
					pr = pipeReq{Kind: "unknown", Req: grammar.Unknown(r, tok)}
				}
			}
		}
		pc.Reqs = append(pc.Reqs, pr)
	}
	if r.Chance(1, 3) {
		for k := 0; k < 1+r.Intn(3); k++ {
			pc.FailAt[1+r.Intn(2*n)] = true
		}
	}
	return pc
}

func failScript(failAt map[int]bool) double.Script {
	return func(c *double.Call) (*redis.Message, error, bool) {
		if failAt[c.N] {
			return nil, fmt.Errorf("handler failure #%d on %s", c.N, c.Method), true
		}
		return nil, nil, false
	}
}

// c03script is the handler script of case idx: the scripted failures, and in every sixth case a handler that
// returns nothing (nil message, nil error) for some calls - the framework must still answer such a request
// with exactly one frame and go on.
func c03script(idx int, pc pipeCase) double.Script {
	fail := failScript(pc.FailAt)
	if idx%6 != 4 {
		return fail
	}
	nilAt := 1 + idx/6%3
	return func(cl *double.Call) (*redis.Message, error, bool) {
		if cl.N%4 == nilAt {
			return nil, nil, true
		}
		return fail(cl)
	}
}

func c03get(idx int) pipeCase {
	r := rng.New(c03.seed, rng.Str("C03"), uint64(idx))
	return genPipe(r, idx, c03.maxN, idx, true)
}

// judgeWouldBlocks applies rule 1 at every would-block read.
func judgeWouldBlocks(pr pipeRun, quitAt int) (string, string) {
	for _, wb := range pr.Snap.WouldBlocks {
		q := reqsDelivered(pr.ReqEnds, wb.Delivered)
		if quitAt >= 0 && q > quitAt+1 {
			q = quitAt + 1
		}
		frames, partial := framesAt(pr.FrameEnds, wb.OutLen, len(pr.Snap.Out), pr.Rest)
		if frames != q || partial {
			return "at every would-block read: complete reply frames written == requests fully delivered",
				fmt.Sprintf("delivered=%d bytes (%d complete requests) but %d complete frames written (partial=%v, out=%d bytes)", wb.Delivered, q, frames, partial, wb.OutLen)
		}
	}
	return "", ""
}

func c03run(idx int) run.Result {
	var res run.Result
	res.Idx = idx
	pc := c03get(idx)
	reqs := pc.values()
	stream, ends := encodeReqs(reqs)
	r := rng.New(c03.seed, rng.Str("C03ch"), uint64(idx))
	res.Key = gen.Hash64(stream)
	quitAt := -1
	for i, q := range pc.Reqs {
		res.Count("req:"+q.Kind, 1)
		res.Count("cmd:"+cmdName(q.Req), 1)
		if q.Kind == "quit" && quitAt < 0 {
			quitAt = i
		}
	}
	desc := func(extra map[string]any) any {
		m := map[string]any{"requests": reqStrings(reqs), "kinds": kinds(pc), "fail_calls": keysOf(pc.FailAt), "handler_returns_nothing_for_some_calls": idx%6 == 4, "stream_hex": hexClip(stream, 500)}
		for k, v := range extra {
			m[k] = v
		}
		return m
	}
	sig := func(clause string, i int) string {
		c := "?"
		if i >= 0 && i < len(reqs) {
			c = pc.Reqs[i].Kind + ":" + cmdName(reqs[i])
		}
		return "C03:" + clause + ":" + c
	}

	// ---- reference run: one request per chunk ----
	rec := double.NewRec()
	rec.Script = c03script(idx, pc)
	ref := runPipe(newServer(rec), reqs, chunkAt(stream, ends), sconn.Script{End: sconn.EOF})
	calls := rec.Snapshot()
	res.Count("handler_calls", int64(len(calls)))
	res.Count("would_block_reads_judged", int64(len(ref.Snap.WouldBlocks)))
	if ref.TimedOut {
		res.Inconclusive = "watchdog: serve did not return"
		return res
	}
	if ref.Panic != "" {
		res.Violate("C03:panic:"+panicFrame(ref.Stack), "no request makes the connection fail", ref.Panic+"\n"+clipS(ref.Stack, 2000), desc(nil))
		return res
	}
	if ref.Bad != "" {
		res.Violate("C03:framing", "replies are complete frames", fmt.Sprintf("%s at %d", ref.Bad, ref.BadOff), desc(map[string]any{"out_hex": hexClip(ref.Snap.Out, 400)}))
		return res
	}
	if cl, det := judgeWouldBlocks(ref, quitAt); cl != "" {
		k := reqsDelivered(ref.ReqEnds, 0)
		_ = k
		res.Violate(sig("wouldblock", len(ref.Frames)), cl, det, desc(map[string]any{"chunking": chPerReq, "out_hex": hexClip(ref.Snap.Out, 400)}))
		return res
	}
	wantFrames := len(reqs)
	if quitAt >= 0 {
		wantFrames = quitAt + 1
	}
	if len(ref.Frames) != wantFrames || ref.Rest != 0 {
		res.Violate(sig("count", len(ref.Frames)), "exactly one reply per request (none behind QUIT)", fmt.Sprintf("%d requests (QUIT at %d) but %d frames, %d trailing bytes", len(reqs), quitAt, len(ref.Frames), ref.Rest), desc(map[string]any{"out_hex": hexClip(ref.Snap.Out, 400)}))
		return res
	}
	// attribute handler calls to requests by sequence number
	wbs := ref.Snap.WouldBlocks
	callsOf := func(i int) []double.Call {
		var out []double.Call
		if i >= len(wbs) {
			return nil
		}
		lo := wbs[i].Seq
		hi := ^uint64(0)
		if i+1 < len(wbs) {
			hi = wbs[i+1].Seq
		}
		for _, c := range calls {
			if c.Seq > lo && c.Seq < hi {
				out = append(out, c)
			}
		}
		return out
	}
	for i := 0; i < wantFrames; i++ {
		cs := callsOf(i)
		failed, nothing := false, false
		for _, c := range cs {
			if c.Err != "" {
				failed = true
			} else if c.NilMsg {
				nothing = true
			}
		}
		rep := ref.Frames[i]
		q := pc.Reqs[i]
		switch {
		case failed:
			res.Count("handler_errors_injected", 1)
			if !rep.IsErr() {
				res.Violate(sig("handler-error", i), "a handler error becomes an error reply", fmt.Sprintf("request %d: reply %s", i, clipS(rep.String(), 200)), desc(nil))
				return res
			}
		case nothing:
			// one frame was written for it (counted above) and the following requests are judged normally
			res.Count("handler_returned_nothing", 1)
		case q.Kind == "quit":
			if !resp.Equal(rep, resp.Status("OK")) {
				res.Violate(sig("quit-reply", i), "QUIT is answered +OK", rep.String(), desc(nil))
				return res
			}
		case q.Kind == "unknown":
			if !rep.IsErr() || len(cs) != 0 {
				res.Violate(sig("unknown", i), "an unknown command is answered with an error and no handler call", fmt.Sprintf("reply=%s calls=%v", clipS(rep.String(), 200), callStrs(cs)), desc(nil))
				return res
			}
		case q.Kind == "valid" && q.V.Class == grammar.Core:
			// reply i belongs to request i: it is what the double returned for that request's call(s)
			var want resp.Value
			ok := true
			switch q.V.ReplyFromCalls {
			case "single":
				if len(cs) == 1 {
					want = cs[0].Reply
				} else {
					ok = false
				}
			case "array":
				want = resp.Array()
				for _, c := range cs {
					want.A = append(want.A, c.Reply)
				}
			case "ok":
				want = resp.Status("OK")
			}
			if !ok || !resp.Equal(rep, want) {
				res.Violate(sig("order", i), "reply i is the reply to request i", fmt.Sprintf("request %d: reply %s, handler returned %s (calls %v)", i, clipS(rep.String(), 200), clipS(want.String(), 200), callStrs(cs)), desc(nil))
				return res
			}
			res.Count("replies_matched_to_their_request", 1)
		case q.Kind == "valid" && q.V.Class == grammar.Framework && q.V.Reply != nil && q.V.Cmd != "CONFIG":
			if !resp.Equal(rep, *q.V.Reply) {
				res.Violate(sig("order", i), "reply i is the reply to request i", fmt.Sprintf("request %d: reply %s want %s", i, clipS(rep.String(), 200), q.V.Reply), desc(nil))
				return res
			}
			res.Count("replies_matched_to_their_request", 1)
		}
	}
	if quitAt >= 0 {
		// nothing behind QUIT is executed or answered; the server closed and returned
		later := 0
		for i := quitAt + 1; i < len(reqs); i++ {
			later += len(callsOf(i))
		}
		lastSeq := uint64(0)
		if len(calls) > 0 {
			lastSeq = calls[len(calls)-1].Seq
		}
		if !ref.Snap.Closed || !ref.Returned || later > 0 || (ref.Snap.CloseSeq != 0 && lastSeq > ref.Snap.CloseSeq) {
			res.Violate("C03:quit", "after QUIT the connection is closed and requests behind it are neither executed nor answered", fmt.Sprintf("closed=%v returned=%v later_calls=%d", ref.Snap.Closed, ref.Returned, later), desc(nil))
			return res
		}
		res.Count("quit_pipelines", 1)
	}
	if !ref.Snap.Closed || !ref.Returned {
		res.Violate("C03:end", "at end of stream the loop returns and closes the connection", fmt.Sprintf("closed=%v returned=%v", ref.Snap.Closed, ref.Returned), desc(nil))
		return res
	}

	// ---- other chunkings: same bytes out, rule 1 at every would-block ----
	hows := []string{chWhole, chByte, chRandom, chRandom}
	// what io.Reader permits and some transports do: the last bytes and the end of the stream reported by ONE read
	// (crypto/tls up to 1.2 when the close_notify has arrived with the data), and reads that return (0, nil)
	hows = append(hows, chWhole+"+eof-with-last-read", chRandom+"+eof-with-last-read", chRandom+"+empty-reads")
	if len(stream) <= 160 {
		for o := 1; o < len(stream); o++ {
			hows = append(hows, fmt.Sprintf("split@%d", o))
		}
	} else {
		for k := 0; k < 6; k++ {
			hows = append(hows, fmt.Sprintf("split@%d", 1+r.Intn(len(stream)-1)))
		}
	}
	// one request at a time with a pause, longer than any read deadline, before one of the requests
	// (virtual time: the scripted transport times the read out iff the server armed a read deadline)
	if len(reqs) >= 2 {
		hows = append(hows, fmt.Sprintf("idle-before-request@%d", 1+r.Intn(len(reqs)-1)))
	}
	for _, how := range hows {
		rec2 := double.NewRec()
		rec2.Script = c03script(idx, pc)
		script := sconn.Script{End: sconn.EOF}
		base := how
		if strings.HasSuffix(how, "+eof-with-last-read") {
			base, script.EOFWithData = strings.TrimSuffix(how, "+eof-with-last-read"), true
		}
		if strings.HasSuffix(how, "+empty-reads") {
			base, script.EmptyReads = strings.TrimSuffix(how, "+empty-reads"), true
		}
		chunks := makeChunks(stream, ends, base, r)
		if strings.HasPrefix(how, "idle-before-request@") {
			var k int
			fmt.Sscanf(how, "idle-before-request@%d", &k)
			chunks = chunkAt(stream, ends)
			script.IdleAt = k + 1 // the would-block read after k replies
		}
		pr := runPipe(newServer(rec2), reqs, chunks, script)
		res.Count("read_deadlines_armed", int64(pr.Snap.ReadDeadlines))
		res.Count("would_block_reads_judged", int64(len(pr.Snap.WouldBlocks)))
		res.Count("chunked_runs", 1)
		if pr.TimedOut {
			res.Inconclusive = "watchdog: serve did not return"
			return res
		}
		extra := map[string]any{"chunking": how, "chunk_sizes": chunkSizes(chunks), "out_hex": hexClip(pr.Snap.Out, 400), "ref_out_hex": hexClip(ref.Snap.Out, 400)}
		if pr.Panic != "" {
			res.Violate("C03:panic:"+panicFrame(pr.Stack), "no request makes the connection fail", pr.Panic, desc(extra))
			return res
		}
		if cl, det := judgeWouldBlocks(pr, quitAt); cl != "" {
			res.Violate("C03:wouldblock-chunked", cl, det, desc(extra))
			return res
		}
		if !bytes.Equal(pr.Snap.Out, ref.Snap.Out) {
			res.Violate("C03:chunking-changes-replies", "the replies do not depend on the chunking of the request stream", "output differs from one-request-per-chunk delivery", desc(extra))
			return res
		}
		res.Keys = append(res.Keys, res.Key^pr.Snap.ReadHash)
	}
	// a slow reader and a second client: one reply write is held half-way while another connection of the same
	// server gets replies; the replies of this connection are still exactly one per request, in order
	if nw := len(ref.Snap.Writes); nw > 0 {
		at := 1 + r.Intn(nw)
		keep := r.Intn(ref.Snap.Writes[at-1].N + 1)
		rec3 := double.NewRec()
		rec3.Script = c03script(idx, pc)
		srv3 := newServer(rec3)
		ca := sconn.New(sconn.Script{Chunks: chunkAt(stream, ends), End: sconn.EOF, PauseWriteAt: at, PauseWriteKeep: keep})
		waitA := double.Start(srv3, ca, nil)
		parked := ca.WaitWritePaused(serveWait)
		other := []resp.Value{resp.Cmd("PING"), resp.Cmd("ECHO", strings.Repeat("o", 1+r.Intn(2*ref.Snap.Writes[at-1].N+16))), resp.Cmd("PING")}
		ostream, oends := encodeReqs(other)
		prB := runPipe(srv3, other, chunkAt(ostream, oends), sconn.Script{End: sconn.EOF})
		ca.ResumeWrite()
		ra := waitA(serveWait)
		if prB.TimedOut || ra.TimedOut {
			res.Inconclusive = "held-write run did not complete"
			return res
		}
		if parked {
			res.Count("held_write_runs", 1)
			if !bytes.Equal(ra.Snap.Out, ref.Snap.Out) {
				res.Violate("C03:replies-changed-by-another-connection", "exactly one reply per request, in the order the requests were sent (also while the reader is slow and another connection is being served)", fmt.Sprintf("write %d was held after %d bytes while another connection received 3 replies; the replies then differ from the undisturbed run", at, keep), desc(map[string]any{"out_hex": hexClip(ra.Snap.Out, 400), "ref_out_hex": hexClip(ref.Snap.Out, 400)}))
				return res
			}
		}
	}
	res.NonTrivial = len(reqs) >= 2
	if idx%97 == 0 {
		res.Sample = desc(map[string]any{"frames": len(ref.Frames), "chunkings": len(hows) + 1})
	}
	return res
}

func kinds(pc pipeCase) []string {
	out := make([]string, len(pc.Reqs))
	for i, r := range pc.Reqs {
		out[i] = r.Kind
	}
	return out
}

func keysOf(m map[int]bool) []int {
	var out []int
	for k := range m {
		out = append(out, k)
	}
	return out
}

func chunkSizes(chunks [][]byte) []int {
	out := make([]int, 0, len(chunks))
	for i, c := range chunks {
		if i >= 64 {
			break
		}
		out = append(out, len(c))
	}
	return out
}

func init() {
	run.Register(&run.Prop{
		ID: "C03", Level: "exploration",
		Rule: func(tier string) string {
			return "case = one pipeline of 1..N requests (N=8 quick, 32 thorough; request 0 rotates over every grammar entry; the rest random: valid vectors with all option flags, ill-formed variants, surplus arguments, unknown commands, QUIT) with a recording handler scripted to fail chosen calls (and, in every sixth case, to return a nil message without an error for every fourth call), served over a scripted connection under: one request per chunk (reference), whole, 1-byte, two random k-way partitions, every 2-way split of short streams, whole and random delivery with the last bytes and the end of stream reported by one read (n>0 with io.EOF), random delivery with a (0, nil) read between every two chunks, one request per chunk with the client pausing before a seeded request for longer than any read deadline (virtual time), and one request per chunk with a seeded reply write held half-way while a second connection of the same server gets three replies. Oracle: at every would-block read complete frames == requests fully delivered; one frame per request; reply i is what the double returned for request i; handler error => error frame and next request normal; QUIT => +OK, close, nothing behind it executed; outputs byte-identical across chunkings; spin = >=3 s CPU without a transport/handler event (child watchdog). distinct = (pipeline, served read-size sequence); non-trivial = pipeline length >= 2 or non-whole chunking"
		},
		Assumptions: []string{"spin detection threshold: 3 s of process CPU time without any transport/handler event", "wall-clock watchdog firing is reported inconclusive"},
		Setup: func(tier string, seed uint64) int {
			c03.seed, c03.tier = seed, tier
			c03.maxN = map[string]int{"quick": 8, "thorough": 32}[tier]
			return map[string]int{"quick": 3000, "thorough": 300000}[tier]
		},
		Run: c03run,
		Describe: func(idx int) any {
			pc := c03get(idx)
			names := ""
			for _, q := range pc.Reqs {
				names += cmdName(q.Req) + ","
			}
			return map[string]any{"sig": clipS(names, 60), "requests": reqStrings(pc.values())}
		},
		Chunk:         100,
		MinConclusive: 500,
	})
}
