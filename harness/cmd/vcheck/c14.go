package main

import (
	"crypto/tls"
	"fmt"
	"io"
	"net"
	"os"
	"sync"
	"sync/atomic"
	"syscall"
	"time"

	"github.com/cybergarage/go-redis/redis"
	"verif/double"
	"verif/gen"
	"verif/pki"
	"verif/refstore"
	"verif/resp"
	"verif/rng"
	"verif/run"
	"verif/sconn"
)

var c14 struct {
	seed   uint64
	tier   string
	canary sync.Once
}

// raceCanary plants a harness-side data race: if the detector is active it
// must report it (reports without framework frames are listed, not counted).
var canaryVar int

func raceCanary() {
	var wg sync.WaitGroup
	for i := 0; i < 2; i++ {
		wg.Add(1)
		go func(i int) {
			defer wg.Done()
			for k := 0; k < 100; k++ {
				canaryVar += i
			}
		}(i)
	}
	wg.Wait()
}

func c14commands(r *rng.R, tag string, n int, realParams bool) []resp.Value {
	var out []resp.Value
	k := func() string { return fmt.Sprintf("%s:k%d", tag, r.Intn(3)) }
	for i := 0; i < n; i++ {
		if realParams && r.Chance(1, 8) {
			// the parameters the framework itself reads while serving: written at run time by a client
			switch r.Intn(4) {
			case 0:
				out = append(out, resp.Cmd("CONFIG", "SET", "requirepass", fmt.Sprintf("%s-%s-%d", c08pass, tag, r.Intn(1000))))
			case 1:
				out = append(out, resp.Cmd("CONFIG", "GET", "requirepass"))
			case 2:
				out = append(out, resp.Cmd("CONFIG", "GET", "*"))
			default:
				out = append(out, resp.Cmd("CONFIG", "SET", "requirepass", c08pass))
			}
			continue
		}
		switch r.Intn(16) {
		case 0:
			out = append(out, resp.Cmd("SET", k(), "v"))
		case 1:
			out = append(out, resp.Cmd("GET", k()))
		case 2:
			out = append(out, resp.Cmd("INCR", tag+":c"))
		case 3:
			out = append(out, resp.Cmd("HSET", tag+":h", "f", "v"))
		case 4:
			out = append(out, resp.Cmd("HGETALL", tag+":h"))
		case 5:
			out = append(out, resp.Cmd("RPUSH", tag+":l", "a", "b"))
		case 6:
			out = append(out, resp.Cmd("LPOP", tag+":l"))
		case 7:
			out = append(out, resp.Cmd("SADD", tag+":s", "m"))
		case 8:
			out = append(out, resp.Cmd("ZADD", tag+":z", "1", "m"))
		case 9:
			out = append(out, resp.Cmd("ZRANGE", tag+":z", "0", "-1"))
		case 10:
			out = append(out, resp.Cmd("CONFIG", "SET", "verif-shared", tag))
		case 11:
			out = append(out, resp.Cmd("CONFIG", "GET", "verif-shared", "verif-"+tag))
		case 12:
			out = append(out, resp.Cmd("CONFIG", "SET", "verif-"+tag, fmt.Sprint(i)))
		case 13:
			out = append(out, resp.Cmd("SELECT", fmt.Sprint(r.Intn(4))))
		case 14:
			out = append(out, resp.Cmd("KEYS", tag+"*"))
		case 15:
			out = append(out, resp.Cmd("PING"))
		}
	}
	return out
}

func c14run(idx int) run.Result {
	var res run.Result
	res.Idx = idx
	c14.canary.Do(raceCanary)
	r := rng.New(c14.seed, rng.Str("C14"), uint64(idx))
	st := refstore.New()
	srv := newServer(st)
	if idx%3 == 2 {
		srv.SetRequirePass(c08pass)
	}
	// every second round also serves a TLS port (connections arriving there are checked against the
	// authenticators by the connection loop itself); every sixth round lets clients rewrite requirepass
	tlsPort := 0
	var tlsCfg *tls.Config
	if idx%2 == 1 {
		if p := c15pki(); p != nil {
			tlsPort = freePort()
			srv.SetTLSPort(tlsPort)
			srv.SetTLSCertFile(p.CertFile)
			srv.SetTLSKeyFile(p.KeyFile)
			srv.SetTLSCaCertFile(p.CAFile)
			tlsCfg = p.ClientConfig(pki.CredRight)
		}
	}
	realParams := idx%6 == 5
	port := 0
	for attempt := 0; attempt < 10; attempt++ {
		port = freePort()
		if port == tlsPort {
			continue
		}
		srv.SetPort(port)
		if err := srv.Start(); err == nil {
			break
		}
		port = 0
	}
	if port == 0 {
		res.Inconclusive = "could not start a listener"
		return res
	}
	nClients := 2 + r.Intn(31)
	lifecycle := r.Chance(1, 2) || idx%6 == 5 // rounds whose clients rewrite requirepass always restart: Start re-registers the password
	password := idx%3 == 2                    // a third of the rounds require a password: AUTH runs the authenticators concurrently
	res.Classes = []string{fmt.Sprintf("lifecycle=%v", lifecycle), fmt.Sprintf("password=%v", password), fmt.Sprintf("tls-port=%v", tlsPort != 0), fmt.Sprintf("lifecycle-goroutines=%d", map[bool]int{false: 0, true: 1}[lifecycle]+map[bool]int{false: 0, true: 1}[lifecycle && idx%4 == 3]), fmt.Sprintf("clients-rewrite-requirepass=%v", realParams)}
	res.Key = gen.Hash64([]byte(fmt.Sprint(idx, nClients, lifecycle)))
	res.NonTrivial = true
	var exchanges, dials, dialErrs, tlsDials int64
	stop := make(chan struct{})
	var wg sync.WaitGroup
	// TCP clients with churn and all endings
	for c := 0; c < nClients; c++ {
		wg.Add(1)
		go func(c int) {
			defer wg.Done()
			cr := rng.New(c14.seed, rng.Str("C14c"), uint64(idx), uint64(c))
			tag := fmt.Sprintf("c%d", c)
			for round := 0; round < 6; round++ {
				select {
				case <-stop:
					return
				default:
				}
				overTLS := tlsPort != 0 && (c+round)%3 == 0
				dport := port
				if overTLS {
					dport = tlsPort
				}
				conn, err := net.DialTimeout("tcp", fmt.Sprintf("127.0.0.1:%d", dport), 2*time.Second)
				atomic.AddInt64(&dials, 1)
				if err != nil {
					atomic.AddInt64(&dialErrs, 1)
					time.Sleep(time.Millisecond)
					continue
				}
				tc := conn.(*net.TCPConn)
				tc.SetDeadline(time.Now().Add(5 * time.Second))
				var wire net.Conn = tc
				if overTLS {
					atomic.AddInt64(&tlsDials, 1)
					wire = tls.Client(tc, tlsCfg)
				}
				cl := &tcpClient{c: wire}
				cmds := c14commands(cr, tag, 1+cr.Intn(8), realParams)
				if password {
					// some clients authenticate (rightly or wrongly) first, some never do
					switch cr.Intn(4) {
					case 0:
					case 1:
						cmds = append([]resp.Value{resp.Cmd("AUTH", "wrong")}, cmds...)
					default:
						cmds = append([]resp.Value{resp.Cmd("AUTH", c08pass)}, cmds...)
					}
				}
				for _, req := range cmds {
					if _, err := wire.Write(resp.Encode(req)); err != nil {
						break
					}
					if _, err := cl.read(); err != nil {
						break
					}
					atomic.AddInt64(&exchanges, 1)
					for y := cr.Intn(3); y > 0; y-- {
						time.Sleep(time.Duration(cr.Intn(200)) * time.Microsecond)
					}
				}
				switch cr.Intn(4) {
				case 0:
					tc.SetLinger(0)
					tc.Close()
				case 1:
					tc.CloseWrite()
					tc.SetReadDeadline(time.Now().Add(20 * time.Millisecond))
					io.Copy(io.Discard, tc)
					tc.Close()
				case 2:
					s := resp.Encode(resp.Cmd("SET", tag+":cut", "value"))
					wire.Write(s[:cr.Intn(len(s))])
					wire.Close()
				default:
					wire.Close()
				}
			}
		}(c)
	}
	// connections served through hook H1
	for h := 0; h < 2; h++ {
		wg.Add(1)
		go func(h int) {
			defer wg.Done()
			hr := rng.New(c14.seed, rng.Str("C14h"), uint64(idx), uint64(h))
			for round := 0; round < 4; round++ {
				reqs := c14commands(hr, fmt.Sprintf("h%d", h), 2+hr.Intn(6), realParams)
				stream, ends := encodeReqs(reqs)
				c := sconn.New(sconn.Script{Chunks: chunkAt(stream, ends), End: sconn.EOF})
				double.Serve(srv, c, serveWait)
			}
		}(h)
	}
	// registry and configuration queries from a control goroutine
	wg.Add(1)
	go func() {
		defer wg.Done()
		for i := 0; i < 200; i++ {
			select {
			case <-stop:
				return
			default:
			}
			for _, c := range srv.Conns() {
				srv.ConnByUUID(c.UUID())
				// what an application does with the registry: look at the state of the connections
				c.Database()
				c.IsAuthrized()
				c.UserName()
				c.Password()
				c.IsTLSConnection()
				c.SpanContext()
			}
			srv.ConfigString("verif-shared")
			srv.ConfigPort()
			srv.IsPortEnabled()
			srv.ConfigRequirePass()
			time.Sleep(50 * time.Microsecond)
		}
	}()
	// in rounds with both ports and no lifecycle calls: for a moment the process has no free descriptor while a
	// client waits in the listen queue of each port, so that BOTH accept loops run into a failing Accept (and
	// through whatever they do about it) at the same time
	var squeezed int64
	if tlsPort != 0 && !lifecycle {
		wg.Add(1)
		go func() {
			defer wg.Done()
			time.Sleep(3 * time.Millisecond)
			atomic.StoreInt64(&squeezed, int64(squeezeDescriptors([]int{port, tlsPort}, 130*time.Millisecond)))
		}()
	}
	// lifecycle calls while clients are active
	var lcErrs []string
	var lcMu sync.Mutex
	lifecyclers := 0
	if lifecycle {
		lifecyclers = 1
		if idx%4 == 3 {
			lifecyclers = 2 // two parts of the application restart the server at the same time
		}
	}
	for lc := 0; lc < lifecyclers; lc++ {
		wg.Add(1)
		go func(lc int) {
			defer wg.Done()
			lr := rng.New(c14.seed, rng.Str("C14l"), uint64(idx), uint64(lc))
			calls := 3
			if realParams {
				calls = 8
			}
			for i := 0; i < calls; i++ {
				time.Sleep(time.Duration(1+lr.Intn(4)) * time.Millisecond)
				// six TLS clients of our own that vanish by reset at the moment of the lifecycle call: closing a TLS
				// connection whose peer is gone reports an error (close_notify cannot be sent), several at a time
				if tlsPort != 0 && i%2 == 0 {
					var mine []*tls.Conn
					for k := 0; k < 6; k++ {
						raw, err := net.DialTimeout("tcp", fmt.Sprintf("127.0.0.1:%d", tlsPort), time.Second)
						if err != nil {
							continue
						}
						tc := tls.Client(raw, tlsCfg)
						tc.SetDeadline(time.Now().Add(2 * time.Second))
						if _, err := tc.Write(resp.Encode(resp.Cmd("PING"))); err == nil {
							(&tcpClient{c: tc}).read()
						}
						mine = append(mine, tc)
					}
					for _, tc := range mine {
						if t, ok := tc.NetConn().(*net.TCPConn); ok {
							t.SetLinger(0)
						}
						tc.NetConn().Close()
					}
				}
				var err error
				if lr.Bool() {
					err = srv.Restart()
				} else {
					if err = srv.Stop(); err == nil {
						err = srv.Start()
					}
				}
				if err != nil {
					lcMu.Lock()
					lcErrs = append(lcErrs, err.Error())
					lcMu.Unlock()
					// the port may be briefly unavailable; try to come back
					for k := 0; k < 50 && srv.Start() != nil; k++ {
						time.Sleep(2 * time.Millisecond)
					}
				}
			}
		}(lc)
	}
	done := make(chan struct{})
	go func() { wg.Wait(); close(done) }()
	select {
	case <-done:
	case <-time.After(90 * time.Second):
		close(stop)
		res.Inconclusive = "watchdog: workload did not finish"
		srv.Stop()
		return res
	}
	srv.Stop()
	res.Count("tcp_exchanges", exchanges)
	res.Count("tcp_dials", dials)
	res.Count("tcp_dial_errors", dialErrs)
	res.Count("tls_dials", tlsDials)
	res.Count("handler_primitive_calls", st.Calls)
	res.Count("clients", int64(nClients))
	res.Count("lifecycle_errors", int64(len(lcErrs)))
	res.Count("accept_failures_provoked_on_both_ports", atomic.LoadInt64(&squeezed))
	if idx%3 == 0 {
		res.Sample = map[string]any{"clients": nClients, "lifecycle_calls": lifecycle, "tcp_exchanges": exchanges, "dials": dials}
	}
	return res
}

// squeezeDescriptors takes every free descriptor of the process, gives one back per port to a client whose
// connection the kernel completes (it waits in the listen queue; the server's Accept has no descriptor for it and
// fails with EMFILE), holds that state and restores everything. Returns the number of ports squeezed.
func squeezeDescriptors(ports []int, hold time.Duration) int {
	var lim syscall.Rlimit
	if err := syscall.Getrlimit(syscall.RLIMIT_NOFILE, &lim); err != nil {
		return 0
	}
	es, _ := os.ReadDir("/proc/self/fd")
	low := lim
	low.Cur = uint64(len(es) + 120)
	if low.Cur > lim.Max {
		return 0
	}
	var fillers []*os.File
	var waiting []net.Conn
	defer func() {
		for _, f := range fillers {
			f.Close()
		}
		syscall.Setrlimit(syscall.RLIMIT_NOFILE, &lim)
		for _, c := range waiting {
			c.Close()
		}
	}()
	if err := syscall.Setrlimit(syscall.RLIMIT_NOFILE, &low); err != nil {
		return 0
	}
	for len(fillers) < 4096 {
		f, err := os.Open("/dev/null")
		if err != nil {
			break
		}
		fillers = append(fillers, f)
	}
	if len(fillers) < len(ports) {
		return 0
	}
	for _, p := range ports {
		fillers[len(fillers)-1].Close()
		fillers = fillers[:len(fillers)-1]
		if c, err := net.DialTimeout("tcp", fmt.Sprintf("127.0.0.1:%d", p), time.Second); err == nil {
			waiting = append(waiting, c)
		}
	}
	time.Sleep(hold)
	return len(waiting)
}

var _ = redis.NewServer

func init() {
	run.Register(&run.Prop{
		ID: "C14", PassiveWatchdog: true, Level: "exploration",
		Rule: func(tier string) string {
			return "case = one workload round executed in a child built with the Go race detector (GORACE halt_on_error=0; the parent parses every 'WARNING: DATA RACE' block from the child's stderr and does not trust exit codes): a server with a mutex-guarded reference store as handler on a real loopback listener (every second round also a TLS listener, a third of the connections going through it); 2..32 TCP clients with connection churn, every command family, CONFIG SET/GET on shared and private keys (and, in every sixth round, CONFIG SET/GET of requirepass and CONFIG GET * from the clients), SELECT, AUTH with right and wrong passwords (a third of the rounds require a password), and endings by close, RST, half-close and mid-request cut; two goroutines serving scripted connections through hook H1; a control goroutine enumerating Conns()/ConnByUUID, reading each registered connection's database, authorization, user name, password and span context, and reading configuration; in half of the rounds a goroutine (in a quarter of them two goroutines at once) calling Restart or Stop+Start three to eight times while clients are active (in TLS rounds every other call is preceded by six TLS clients vanishing by reset at that moment); in TLS rounds without lifecycle calls the process's free descriptors are taken away for 130 ms while one client waits in the listen queue of each port, so that both accept loops run through a failing Accept at the same time. Oracle: a report counts iff the innermost non-runtime frame of either access stack is in github.com/cybergarage/go-redis/redis[/...]; reports are reduced to an unordered pair of access functions (line numbers stripped, closures normalised) and de-duplicated; a child dying with 'fatal error: concurrent map ...' is a violation. Self-check: a planted harness-side race must be reported in every run (detector active). distinct = round index (every round is a different seeded workload and schedule)"
		},
		Assumptions: []string{"the race detector only reports races on accesses that executed and were unordered in that run: a clean run is not race freedom"},
		Setup: func(tier string, seed uint64) int {
			c14.seed, c14.tier = seed, tier
			return map[string]int{"quick": 96, "thorough": 2400}[tier]
		},
		Run:           c14run,
		Describe:      func(idx int) any { return map[string]any{"sig": "round", "round": idx} },
		Chunk:         3,
		MinConclusive: 10,
		Race:          true,
		Finish: func(a *run.Agg) {
			if a.Counters["race_reports_outside_framework"] == 0 {
				a.Extra["self_check_failed"] = "the planted harness-side race was not reported: the race detector is not active"
			}
			if a.Counters["tcp_exchanges"] == 0 || a.Counters["handler_primitive_calls"] == 0 {
				a.Extra["self_check_failed"] = "the workload exchanged nothing"
			}
		},
	})
}
