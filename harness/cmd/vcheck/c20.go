package main

import (
	"fmt"
	"sort"
	"strings"
	"sync/atomic"
	"time"

	"github.com/cybergarage/go-redis/redis"
	"github.com/cybergarage/go-redis/redis/auth"
	"verif/double"
	"verif/gen"
	"verif/resp"
	"verif/rng"
	"verif/run"
	"verif/sconn"
)

var c20 struct {
	seed uint64
	tier string
}

type c20case struct {
	Pipe     pipeCase
	Password bool   // server requires a password (requests before AUTH are unauthorized)
	AuthAt   int    // index at which a correct AUTH is inserted (-1 never)
	Ending   string // eof | cut | reset | malformed | nonarray
	CutOff   int
	Chunking string
}

func c20get(idx int) (c20case, []resp.Value, []byte, []int) {
	r := rng.New(c20.seed, rng.Str("C20"), uint64(idx))
	c := c20case{Pipe: genPipe(r, idx, 6, idx, true), AuthAt: -1}
	c.Password = r.Chance(1, 4)
	reqs := c.Pipe.values()
	if c.Password && r.Bool() {
		c.AuthAt = r.Intn(len(reqs) + 1)
		at := c.AuthAt
		reqs = append(reqs[:at:at], append([]resp.Value{resp.Cmd("AUTH", "Secr3t")}, reqs[at:]...)...)
	}
	c.Ending = rng.Pick(r, []string{"eof", "eof", "cut", "cut", "reset", "malformed", "nonarray", "write-fail", "write-fail", "server-close-idle", "server-close-in-handler"})
	switch c.Ending {
	case "nonarray":
		at := r.Intn(len(reqs) + 1)
		reqs = append(reqs[:at:at], append([]resp.Value{rng.Pick(r, []resp.Value{resp.Status("PING"), resp.Int(1), resp.BulkS("x"), resp.Array(), resp.Array(resp.NullBulk())})}, reqs[at:]...)...)
	}
	stream, ends := encodeReqs(reqs)
	switch c.Ending {
	case "cut", "reset":
		c.CutOff = r.Intn(len(stream) + 1)
		stream = stream[:c.CutOff]
	case "malformed":
		stream = append(stream, rng.Pick(r, []string{"!oops\r\n", "$abc\r\n", "*x\r\n", "$3\r\nabcdef", "*2\r\n$1\r\na\r\n!",
			// headers without digits, a lone type byte at the end of the stream, a sign without digits
			"*\r\n", "$\r\n", "*2\r\n$\r\n", "$", "*", ":", "+", "*-\r\n", "$-\r\n", "*2\r\n$4\r\nECHO\r\n$"})...)
	}
	c.Chunking = rng.Pick(r, []string{chWhole, chPerReq, chByte, chRandom})
	return c, reqs, stream, ends
}

type spanInfo struct {
	parent   int
	name     string
	open     bool
	children int // open children
	kids     map[string]int
}

// checkTrace replays the merged event log against the trace specification.
func checkTrace(spans []double.SpanEvent, snap sconn.Snapshot, returnedOK bool) (clause, detail string, stats map[string]int64) {
	return checkTraceOf(spans, snap, returnedOK, false)
}

// checkTraceOf with concurrent=true judges the merged log of SEVERAL connections: roots of different connections
// overlap legitimately, so "no new root while another is open" is not asked (the tree rules are: every span
// finished exactly once, children inside their parents, the shape of every root, nothing open at the end).
func checkTraceOf(spans []double.SpanEvent, snap sconn.Snapshot, returnedOK bool, concurrent bool) (clause, detail string, stats map[string]int64) {
	stats = map[string]int64{}
	type ev struct {
		seq  uint64
		kind int // 0 span, 1 would-block, 2 write
		i    int
	}
	var evs []ev
	for i, s := range spans {
		evs = append(evs, ev{s.Seq, 0, i})
	}
	for i, w := range snap.WouldBlocks {
		evs = append(evs, ev{w.Seq, 1, i})
	}
	for i, w := range snap.Writes {
		evs = append(evs, ev{w.Seq, 2, i})
	}
	sort.Slice(evs, func(a, b int) bool { return evs[a].seq < evs[b].seq })
	info := map[int]*spanInfo{}
	open := map[int]bool{}
	rootsStarted, rootsFinished := 0, 0
	for _, e := range evs {
		switch e.kind {
		case 0:
			s := spans[e.i]
			if s.Start {
				if _, dup := info[s.ID]; dup {
					return "span ids are unique", s.String(), stats
				}
				if s.Parent != 0 {
					p := info[s.Parent]
					if p == nil || !p.open {
						return "a child span starts while its parent is open", fmt.Sprintf("%s but parent %d is not open", s, s.Parent), stats
					}
					p.children++
					p.kids[s.Name]++
				} else {
					rootsStarted++
					// a new root must not start while another root is open
					for id := range open {
						if info[id].parent == 0 && !concurrent {
							return "no span is left open when the connection moves on to the next request", fmt.Sprintf("%s starts while root %d is still open", s, id), stats
						}
					}
				}
				info[s.ID] = &spanInfo{parent: s.Parent, name: s.Name, open: true, kids: map[string]int{}}
				open[s.ID] = true
				stats["spans_started"]++
			} else {
				si := info[s.ID]
				if si == nil {
					return "finish refers to a started span", s.String(), stats
				}
				if !si.open {
					return "no span is finished twice", s.String(), stats
				}
				if si.children != 0 {
					return "a child span finishes before its parent finishes", fmt.Sprintf("%s finished with %d open child span(s)", s, si.children), stats
				}
				si.open = false
				delete(open, s.ID)
				if si.parent != 0 {
					info[si.parent].children--
				} else {
					rootsFinished++
					// shape of a finished root: one parse child, at most one command child, at most one response child
					cmds := 0
					for n, k := range si.kids {
						if n != "parse" && n != "response" {
							cmds += k
						}
					}
					if si.kids["parse"] != 1 || si.kids["response"] > 1 || cmds > 1 {
						return "every request is bracketed by exactly one root span (one parse, at most one command, at most one response child)", fmt.Sprintf("root %d finished with children %v", s.ID, si.kids), stats
					}
				}
				stats["spans_finished"]++
			}
		case 1:
			// would-block read: only the waiting iteration's root and its parse child may be open
			stats["would_blocks_judged"]++
			if len(open) > 2 {
				return "at a would-block read only the waiting root and its parse child are open", fmt.Sprintf("%d spans open: %v", len(open), openNames(open, info)), stats
			}
			for id := range open {
				si := info[id]
				if si.parent == 0 {
					continue
				}
				if si.name != "parse" || !open[si.parent] || info[si.parent].parent != 0 {
					return "at a would-block read only the waiting root and its parse child are open", fmt.Sprintf("open: %v", openNames(open, info)), stats
				}
			}
		case 2:
			// a reply write lies inside exactly one open root, inside its response child
			stats["writes_judged"]++
			roots := 0
			resp := 0
			for id := range open {
				if info[id].parent == 0 {
					roots++
				}
				if info[id].name == "response" {
					resp++
				}
			}
			if roots != 1 || resp != 1 {
				return "every answered request lies inside exactly one root span (reply written inside its response child)", fmt.Sprintf("at a reply write: %d open root(s), %d open response span(s): %v", roots, resp, openNames(open, info)), stats
			}
		}
	}
	if returnedOK && len(open) != 0 {
		return "no span is left open when the connection ends", fmt.Sprintf("still open: %v", openNames(open, info)), stats
	}
	if returnedOK && rootsStarted != rootsFinished {
		return "every root span is finished exactly once", fmt.Sprintf("%d started, %d finished", rootsStarted, rootsFinished), stats
	}
	stats["roots"] = int64(rootsStarted)
	return "", "", stats
}

func openNames(open map[int]bool, info map[int]*spanInfo) []string {
	var out []string
	for id := range open {
		out = append(out, fmt.Sprintf("%d:%s(parent %d)", id, info[id].name, info[id].parent))
	}
	sort.Strings(out)
	return out
}

// c20contention: two connections on one server and one tracer. Connection A's handler is held inside a command
// (the command lock is taken); connection B's requests arrive meanwhile and have to wait for the lock; then A is
// let go. Whatever the framework does while a request waits for its turn, the spans of both connections obey
// the tree rules.
func c20contention(idx int) run.Result {
	var res run.Result
	res.Idx = idx
	_, reqs, _, _ := c20get(idx)
	res.Classes = []string{"two-connections-contending-for-the-command-lock"}
	res.NonTrivial = true
	res.Key = gen.Hash64([]byte(fmt.Sprint("contention", reqStrings(reqs))))
	rec := double.NewRec()
	var armed atomic.Bool
	parked := make(chan struct{}, 4)
	release := make(chan struct{})
	rec.Yield = func() {
		if armed.CompareAndSwap(true, false) {
			parked <- struct{}{}
			<-release
		}
	}
	srv := newServer(rec)
	tr := double.NewSpanRecorder()
	srv.SetTracer(tr)
	a, b := sconn.New(sconn.Script{End: sconn.Hold}), sconn.New(sconn.Script{End: sconn.Hold})
	waitA, waitB := double.Start(srv, a, nil), double.Start(srv, b, nil)
	released := false
	finish := func() (double.ServeResult, double.ServeResult) {
		if !released {
			released = true
			close(release)
		}
		a.End(sconn.EOF)
		b.End(sconn.EOF)
		return waitA(serveWait), waitB(serveWait)
	}
	armed.Store(true)
	a.Feed(resp.Encode(resp.Cmd("GET", "held")))
	select {
	case <-parked:
	case <-time.After(serveWait):
		finish()
		res.Inconclusive = "watchdog"
		return res
	}
	// B's requests arrive while A holds the command lock
	for _, q := range reqs {
		b.Feed(resp.Encode(q))
	}
	// (best effort, no verdict) give B's goroutine the chance to reach the lock before A lets go
	waiting := false
	for i := 0; i < 200 && !waiting; i++ {
		_, dump := serverGoroutines()
		for _, g := range strings.Split(dump, "\n\n") {
			if strings.Contains(g, "sync.(*Mutex).Lock") && strings.Contains(g, "(*Server).receive") {
				waiting = true
			}
		}
		if !waiting {
			time.Sleep(time.Millisecond)
		}
	}
	if waiting {
		res.Count("requests_that_waited_for_the_command_lock", 1)
	}
	released = true
	close(release)
	a.Feed(resp.Encode(resp.Cmd("PING")))
	ra, rb := finish()
	spans := tr.Snapshot()
	desc := func() any {
		evs := make([]string, 0, len(spans))
		for i, s := range spans {
			if i >= 80 {
				evs = append(evs, "…")
				break
			}
			evs = append(evs, s.String())
		}
		return map[string]any{"connection_A": []string{"GET held (handler held inside the command)", "PING"}, "connection_B": reqStrings(reqs), "B_waited_for_the_lock": waiting, "span_events": evs}
	}
	if ra.TimedOut || rb.TimedOut {
		res.Inconclusive = "watchdog"
		return res
	}
	if ra.Panic != "" || rb.Panic != "" {
		res.Violate("C20:panic:"+panicFrame(ra.Stack+rb.Stack), "the connection loop completes", ra.Panic+rb.Panic, desc())
		return res
	}
	clause, detail, stats := checkTraceOf(spans, sconn.Snapshot{}, ra.Returned && rb.Returned, true)
	for k, v := range stats {
		res.Count(k, v)
	}
	res.Count("span_events", int64(len(spans)))
	if clause != "" {
		res.Violate("C20:"+clause+":two-connections", clause, detail, desc())
	}
	return res
}

func c20run(idx int) run.Result {
	if idx%20 == 7 {
		return c20contention(idx)
	}
	var res run.Result
	res.Idx = idx
	c, reqs, stream, ends := c20get(idx)
	r := rng.New(c20.seed, rng.Str("C20ch"), uint64(idx))
	rec := double.NewRec()
	rec.Script = failScript(c.Pipe.FailAt)
	if idx%6 == 4 {
		// a handler that returns nothing (nil message, nil error) for some calls: composed commands then fail
		// inside the framework and the failure is answered with an error reply
		fail, nilAt := failScript(c.Pipe.FailAt), 1+r.Intn(3)
		rec.Script = func(cl *double.Call) (*redis.Message, error, bool) {
			if cl.N%4 == nilAt {
				return nil, nil, true
			}
			return fail(cl)
		}
	}
	srv := newServer(rec)
	tr := double.NewSpanRecorder()
	srv.SetTracer(tr)
	if c.Password {
		srv.SetRequirePass("Secr3t")
		srv.AddAuthenticator(auth.NewClearTextPasswordAuthenticatorWith("", "Secr3t"))
	}
	var chunks [][]byte
	if c.Chunking == chPerReq {
		var cuts []int
		for _, e := range ends {
			if e < len(stream) {
				cuts = append(cuts, e)
			}
		}
		chunks = chunkAt(stream, cuts)
	} else {
		chunks = makeChunks(stream, ends, c.Chunking, r)
	}
	ending := sconn.EOF
	if c.Ending == "reset" {
		ending = sconn.Reset
	}
	script := sconn.Script{Chunks: chunks, End: ending}
	if c.Ending == "write-fail" {
		// the peer is gone when the reply is written: the k-th write fails (optionally after a few bytes)
		script.FailWriteAt = 1 + r.Intn(3)
		script.FailWriteKeep = r.Intn(3)
	}
	var sr double.ServeResult
	switch c.Ending {
	case "server-close-idle":
		// the SERVER side closes the connection (as Stop, Restart, or an application holding a *Conn from Conns()
		// do) while its goroutine is alive and waiting for the next request
		script.End = sconn.Hold
		conn := sconn.New(script)
		wait := double.Start(srv, conn, nil)
		if conn.WaitIdle(serveWait) != nil {
			conn.End(sconn.EOF)
			wait(serveWait)
			res.Inconclusive = "watchdog"
			return res
		}
		if r.Bool() {
			srv.ConnManager.Close()
		} else {
			for _, sc := range srv.Conns() {
				sc.Close()
			}
		}
		conn.End(sconn.EOF) // (a connection that already returned is not affected)
		sr = wait(serveWait)
	case "server-close-in-handler":
		// ... or while a request is in flight: the handler of a seeded call closes the connection it serves
		inner, at := rec.Script, 1+r.Intn(4)
		rec.Script = func(cl *double.Call) (*redis.Message, error, bool) {
			if cl.N == at {
				for _, sc := range srv.Conns() {
					sc.Close()
				}
			}
			return inner(cl)
		}
		sr = double.Serve(srv, sconn.New(script), serveWait)
	default:
		sr = double.Serve(srv, sconn.New(script), serveWait)
	}
	spans := tr.Snapshot()
	res.Key = gen.Hash64(stream) ^ gen.Hash64([]byte(c.Ending+c.Chunking))
	res.Classes = []string{"ending:" + c.Ending}
	if c.Password {
		res.Classes = append(res.Classes, "password-required")
	}
	desc := func() any {
		evs := make([]string, 0, len(spans))
		for i, s := range spans {
			if i >= 80 {
				evs = append(evs, "…")
				break
			}
			evs = append(evs, s.String())
		}
		return map[string]any{"requests": reqStrings(reqs), "ending": c.Ending, "cut_offset": c.CutOff, "chunking": c.Chunking, "password": c.Password, "auth_at": c.AuthAt,
			"stream_hex": hexClip(stream, 500), "span_events": evs}
	}
	if sr.TimedOut {
		res.Inconclusive = "watchdog"
		return res
	}
	if sr.Panic != "" {
		res.Violate("C20:panic:"+panicFrame(sr.Stack), "the connection loop completes", sr.Panic, desc())
		return res
	}
	clause, detail, stats := checkTrace(spans, sr.Snap, sr.Returned)
	for k, v := range stats {
		res.Count(k, v)
	}
	res.Count("span_events", int64(len(spans)))
	if clause != "" {
		res.Violate("C20:"+clause+":"+c.Ending, clause, detail, desc())
		return res
	}
	// every complete reply frame corresponds to one root with a response child
	frames, _, _, _, _ := resp.DecodeAll(sr.Snap.Out)
	res.Count("replies", int64(len(frames)))
	nontrivial := c.Ending != "eof" || c.Password
	for _, q := range c.Pipe.Reqs {
		if q.Kind != "valid" || q.V.Class.String() == "derived" {
			nontrivial = true
		}
	}
	res.NonTrivial = nontrivial
	if idx%131 == 0 {
		res.Sample = desc()
	}
	return res
}

func init() {
	run.Register(&run.Prop{
		ID: "C20", Level: "exploration",
		Rule: func(tier string) string {
			return "case = one pipeline as in C03/C10 (every command rotating in position 0; valid, ill-formed, surplus, unknown, composed commands, QUIT, scripted handler errors, and in every sixth case a handler that returns a nil message without an error for some calls), optionally on a password-protected server with AUTH inserted at a seeded position (requests before it are unauthorized), with a non-array request inserted, ending in: EOF at the end, EOF or reset at a seeded byte offset inside the stream, a malformed frame, a failing reply write (the k-th write fails, optionally after a few bytes), or a close from the SERVER side while the connection's goroutine is alive (the registry's Close or Close on the *Conn from Conns(), either while the connection waits for its next request or from inside the handler of a seeded call); delivered whole, per request, 1-byte or random k-way. Every twentieth case instead runs TWO connections on one server and tracer: the handler of the first is held inside a command (command lock taken) while the requests of the second arrive and wait for the lock; the merged span log must obey the tree rules. A recording tracer.Tracer (whose contexts are the library's own common.NewSpanContextWith) is installed with SetTracer. The merged log of span, would-block and write events is checked online against the trace specification: finish refers to an open span, never twice; a child starts under an open parent and all children finish before the parent; at a would-block read only the waiting root and its parse child are open; a new root never starts while another is open; each reply write lies inside exactly one root and its response child; a finished root has one parse child, <=1 command child and <=1 response child; nothing is open when the loop returns. non-trivial = error outcome, composed command, QUIT, password, or an ending other than clean EOF"
		},
		Assumptions: []string{"handlers do not panic (a panic inside a command is outside the statement's list of outcomes)"},
		Setup: func(tier string, seed uint64) int {
			c20.seed, c20.tier = seed, tier
			return map[string]int{"quick": 20000, "thorough": 400000}[tier]
		},
		Run: c20run,
		Describe: func(idx int) any {
			c, reqs, _, _ := c20get(idx)
			return map[string]any{"sig": c.Ending, "requests": reqStrings(reqs), "ending": c.Ending}
		},
		Chunk:         500,
		MinConclusive: 1000,
	})
}
