package main

import (
	"bytes"
	"crypto/tls"
	"crypto/x509"
	"crypto/x509/pkix"
	"fmt"
	"io"
	"net"
	"os"
	"runtime"
	"runtime/debug"
	"runtime/pprof"
	"strings"
	"sync"
	"time"

	exsrv "github.com/cybergarage/go-redis/examples/go-redisd/server"
	"github.com/cybergarage/go-redis/redis"
	"github.com/cybergarage/go-redis/redis/auth"
	"verif/double"
	"verif/gen"
	"verif/pki"
	"verif/resp"
	"verif/rng"
	"verif/run"
	"verif/sched"
	"verif/sconn"
)

var c19 struct {
	seed   uint64
	tier   string
	nEnd   int
	nChurn int
	cycles int
}

var c19endings = []string{"eof-boundary", "eof-mid-request", "reset-boundary", "reset-mid-request", "quit", "malformed", "write-fail-1", "write-fail-2", "write-fail-3", "write-fail-partial", "rejected-certificate", "stop-idle", "stop-mid-request", "eof-after-nested-request"}

func c19ending(idx int) run.Result {
	var res run.Result
	res.Idx = idx
	r := rng.New(c19.seed, rng.Str("C19"), uint64(idx))
	ending := c19endings[idx%len(c19endings)]
	nreq := r.Intn(5)
	res.Classes = []string{"ending:" + ending}
	pc := genPipe(r, idx, 4, idx, false)
	reqs := pc.values()
	if nreq < len(reqs) {
		reqs = reqs[:nreq]
	}
	stream, ends := encodeReqs(reqs)
	script := sconn.Script{End: sconn.EOF}
	var st *tls.ConnectionState
	rec := double.NewRec()
	srv := newServer(rec)
	stopAfter := false
	switch ending {
	case "eof-boundary":
	case "eof-after-nested-request":
		// the last request is wrapped in arrays (the server unwraps such a request and answers it); then EOF
		inner := resp.Cmd("PING")
		if r.Bool() {
			inner = resp.Cmd("GET", "k")
		}
		for d := 1 + r.Intn(3); d > 0; d-- {
			inner = resp.Array(inner)
		}
		stream = append(stream, resp.Encode(inner)...)
	case "eof-mid-request", "reset-mid-request", "stop-mid-request":
		more := resp.Encode(resp.Cmd("SET", "k", strings.Repeat("v", 40)))
		stream = append(stream, more[:1+r.Intn(len(more)-1)]...)
		if ending == "reset-mid-request" {
			script.End = sconn.Reset
		}
		if ending == "stop-mid-request" {
			script.End = sconn.Hold
			stopAfter = true
		}
	case "reset-boundary":
		script.End = sconn.Reset
	case "quit":
		q := resp.Encode(resp.Cmd("QUIT"))
		stream = append(stream, q...)
		stream = append(stream, resp.Encode(resp.Cmd("GET", "after-quit"))...)
	case "malformed":
		stream = append(stream, rng.Pick(r, []string{"!x\r\n", "$abc\r\n", "*2\r\n$1\r\na\r\n?", "$3\r\nabcde", "*99999999999\r\n"})...)
		script.End = sconn.Hold // the server must end the connection by itself
	case "write-fail-1", "write-fail-2", "write-fail-3":
		script.FailWriteAt = int(ending[len(ending)-1] - '0')
		stream = append(stream, resp.EncodeAll(resp.Cmd("PING"), resp.Cmd("PING"), resp.Cmd("PING"), resp.Cmd("PING"))...)
	case "write-fail-partial":
		script.FailWriteAt = 1 + r.Intn(2)
		script.FailWriteKeep = 1 + r.Intn(3)
		stream = append(stream, resp.EncodeAll(resp.Cmd("PING"), resp.Cmd("ECHO", "hello"), resp.Cmd("PING"))...)
	case "rejected-certificate":
		srv.AddAuthenticator(auth.NewCertificateAuthenticatorWith(auth.WithCommonName("wanted")))
		st = &tls.ConnectionState{HandshakeComplete: true, PeerCertificates: []*x509.Certificate{{Subject: pkix.Name{CommonName: "somebody else"}}}}
		script.End = sconn.Hold
	case "stop-idle":
		script.End = sconn.Hold
		stopAfter = true
	}
	var chunks [][]byte
	if r.Bool() {
		chunks = [][]byte{stream}
	} else {
		chunks = chunkAt(stream, ends)
	}
	script.Chunks = chunks
	conn := sconn.New(script)
	res.Key = gen.Hash64(stream) ^ gen.Hash64([]byte(ending))
	res.NonTrivial = true
	desc := map[string]any{"ending": ending, "requests_before": len(reqs), "stream_hex": hexClip(stream, 300)}
	var a any
	if st != nil {
		a = st
	}
	wait := double.Start(srv, conn, a)
	if stopAfter {
		// wait until the server is parked in a would-block read (idle, or in the middle of a request), then Stop
		if err := conn.WaitIdle(serveWait); err != nil {
			res.Inconclusive = "watchdog before Stop"
			return res
		}
		if ending == "stop-idle" && len(srv.Conns()) != 1 {
			res.Violate("C19:registry-while-served", "while served the connection is in the registry", fmt.Sprintf("registry has %d entries", len(srv.Conns())), desc)
			return res
		}
		if err := srv.Stop(); err != nil {
			res.Inconclusive = "Stop: " + err.Error()
			return res
		}
	}
	sr := wait(10 * time.Second)
	if sr.TimedOut {
		if ending == "malformed" || ending == "rejected-certificate" || stopAfter {
			// the server was the one that had to end this connection and its goroutine is still parked in Read
			res.Violate("C19:goroutine-not-terminated:"+ending, "the connection's goroutine terminates", "the connection loop is still waiting for input 10 s after the "+ending+" (the scripted peer keeps the connection open)", desc)
			conn.Close()
			wait(serveWait)
			return res
		}
		// the connection loop has not returned 10 s after its stream ended. If its goroutine is found RUNNING in three
		// profiles in a row it is not waiting for anybody: it spins (look before the connection is released)
		if w := run.SpinningServerGoroutine(); w != "" {
			res.Violate("C19:goroutine-spins:"+ending, "the connection's goroutine terminates", "10 s after the "+ending+" the connection loop has not returned, and its goroutine was running in three goroutine profiles taken 150 ms apart:\n"+w, desc)
			conn.Close()
			wait(serveWait)
			return res
		}
		res.Inconclusive = "watchdog"
		conn.Close()
		return res
	}
	if sr.Panic != "" {
		res.Violate("C19:panic:"+ending, "the connection ends cleanly", sr.Panic, desc)
		return res
	}
	if !sr.Snap.Closed || sr.Snap.CloseCount < 1 {
		res.Violate("C19:socket-not-closed:"+ending, "the server closes the socket", fmt.Sprintf("Close() was called %d times", sr.Snap.CloseCount), desc)
		return res
	}
	if n := len(srv.Conns()); n != 0 {
		res.Violate("C19:still-registered:"+ending, "the connection disappears from the connection registry", fmt.Sprintf("registry has %d entries after the loop returned", n), desc)
		return res
	}
	if ending == "quit" {
		for _, c := range rec.Snapshot() {
			for _, k := range c.Keys {
				if k == "after-quit" {
					res.Violate("C19:executed-after-quit", "QUIT ends the connection", "a request behind QUIT was executed", desc)
					return res
				}
			}
		}
	}
	if idx%131 == 0 {
		res.Sample = desc
	}
	return res
}

// ------------------------------------------------------------------ churn

func fdCount() int {
	es, err := os.ReadDir("/proc/self/fd")
	if err != nil {
		return -1
	}
	return len(es)
}

type counters struct{ goroutines, registry, fds int }

func (c counters) String() string {
	return fmt.Sprintf("{server goroutines:%d registry:%d fds:%d}", c.goroutines, c.registry, c.fds)
}

func sample(srv *redis.Server) counters {
	n, _ := serverGoroutines()
	return counters{n, len(srv.Conns()), fdCount()}
}

var churnEndings = []string{"fin", "rst", "halfclose", "mid-request", "quit", "malformed", "tls-ok-fin", "tls-ok-rst", "tls-no-cert", "tls-garbage", "tls-abort", "noread-rst", "tls-mid-request"}

func c19churnOne(plain, tlsPort int, p *pki.PKI, r *rng.R, kind string) {
	sconn.NextSeq()
	addr := fmt.Sprintf("127.0.0.1:%d", plain)
	taddr := fmt.Sprintf("127.0.0.1:%d", tlsPort)
	some := resp.EncodeAll(resp.Cmd("SET", "k", "v"), resp.Cmd("GET", "k"), resp.Cmd("LPUSH", "l", "a"))
	readSome := func(c net.Conn) {
		c.SetReadDeadline(time.Now().Add(50 * time.Millisecond))
		io.Copy(io.Discard, c)
	}
	switch kind {
	case "fin", "rst", "halfclose", "mid-request", "quit", "malformed", "noread-rst":
		c, err := net.DialTimeout("tcp", addr, 5*time.Second)
		if err != nil {
			return
		}
		tc := c.(*net.TCPConn)
		tc.SetDeadline(time.Now().Add(5 * time.Second))
		switch kind {
		case "fin":
			tc.Write(some)
			readSome(tc)
			tc.Close()
		case "rst":
			tc.Write(some)
			tc.SetLinger(0)
			tc.Close()
		case "halfclose":
			tc.Write(some)
			tc.CloseWrite()
			readSome(tc)
			tc.Close()
		case "mid-request":
			tc.Write(some[:len(some)-r.Intn(10)-1])
			tc.Close()
		case "quit":
			tc.Write(resp.Encode(resp.Cmd("QUIT")))
			readSome(tc) // the server closes
			tc.Close()
		case "malformed":
			tc.Write([]byte("*2\r\n$3\r\nGET\r\n!boom\r\n"))
			readSome(tc) // the server closes
			tc.Close()
		case "noread-rst":
			var vs []resp.Value
			vs = append(vs, resp.Cmd("SET", "big", strings.Repeat("x", 100000)))
			for k := 0; k < 50; k++ {
				vs = append(vs, resp.Cmd("GET", "big"))
			}
			tc.SetWriteDeadline(time.Now().Add(time.Second))
			tc.Write(resp.EncodeAll(vs...))
			time.Sleep(20 * time.Millisecond)
			tc.SetLinger(0)
			tc.Close()
		}
	case "tls-ok-fin", "tls-ok-rst", "tls-mid-request":
		d := &net.Dialer{Timeout: 5 * time.Second}
		c, err := tls.DialWithDialer(d, "tcp", taddr, p.ClientConfig(pki.CredRight))
		if err != nil {
			return
		}
		c.SetDeadline(time.Now().Add(5 * time.Second))
		switch kind {
		case "tls-ok-fin":
			c.Write(some)
			readSome(c)
			c.Close()
		case "tls-ok-rst":
			c.Write(some)
			c.NetConn().(*net.TCPConn).SetLinger(0)
			c.NetConn().Close()
		case "tls-mid-request":
			c.Write(some[:len(some)-3])
			c.Close()
		}
	case "tls-no-cert":
		d := &net.Dialer{Timeout: 5 * time.Second}
		c, err := tls.DialWithDialer(d, "tcp", taddr, p.ClientConfig(pki.CredNone))
		if err == nil {
			c.SetDeadline(time.Now().Add(time.Second))
			c.Write(some)
			readSome(c)
			c.Close()
		}
	case "tls-garbage":
		c, err := net.DialTimeout("tcp", taddr, 5*time.Second)
		if err == nil {
			c.Write([]byte("PING\r\n\x16\x03\x01garbage"))
			c.Close()
		}
	case "tls-abort":
		c, err := net.DialTimeout("tcp", taddr, 5*time.Second)
		if err == nil {
			tc := tls.Client(&closeAfterFirstWrite{Conn: c}, p.ClientConfig(pki.CredRight))
			tc.SetDeadline(time.Now().Add(time.Second))
			tc.Handshake()
			c.Close()
		}
	}
}

func c19churn(idx int) run.Result {
	var res run.Result
	res.Idx = idx
	res.Classes = []string{"churn"}
	res.Key = uint64(idx) + 0xc19
	res.NonTrivial = true
	r := rng.New(c19.seed, rng.Str("C19churn"), uint64(idx))
	p := c15pki()
	if p == nil {
		res.Inconclusive = "pki unavailable"
		return res
	}
	ex := exsrv.NewServer()
	srv := ex.Server
	var plain, tlsPort int
	started := false
	for attempt := 0; attempt < 10 && !started; attempt++ {
		plain, tlsPort = freePort(), freePort()
		if plain == tlsPort {
			continue
		}
		srv.SetPort(plain)
		srv.SetTLSPort(tlsPort)
		srv.SetTLSCertFile(p.CertFile)
		srv.SetTLSKeyFile(p.KeyFile)
		srv.SetTLSCaCertFile(p.CAFile)
		started = srv.Start() == nil
	}
	if !started {
		res.Inconclusive = "could not start"
		return res
	}
	defer srv.Stop()
	// A socket the server forgot to close is closed by its finalizer at the next garbage collection, which
	// would mask a descriptor leak: keep the collector off during the churn (bounded by a memory limit).
	oldGC := debug.SetGCPercent(-1)
	oldLimit := debug.SetMemoryLimit(3 << 30)
	defer func() {
		debug.SetGCPercent(oldGC)
		debug.SetMemoryLimit(oldLimit)
	}()
	// warm-up: one connection per ending, then idle
	for _, k := range churnEndings {
		c19churnOne(plain, tlsPort, p, r, k)
	}
	settle := func(target *counters) (counters, bool) {
		// poll until the counters are at a fixed point: unchanged for a while AND no server goroutine is
		// still working. A wall-clock window alone is not trusted (a starved process looks stable).
		deadline := time.Now().Add(60 * time.Second)
		last := sample(srv)
		stableSince := time.Now()
		for time.Now().Before(deadline) {
			time.Sleep(20 * time.Millisecond)
			sconn.NextSeq() // progress for the child watchdog (this workload is CPU-heavy by design)
			cur := sample(srv)
			if cur != last {
				last, stableSince = cur, time.Now()
				continue
			}
			if target != nil && cur.goroutines <= target.goroutines && cur.registry <= target.registry && cur.fds <= target.fds {
				return cur, true
			}
			if time.Since(stableSince) > 1500*time.Millisecond && busyServerGoroutines() == 0 {
				return cur, true
			}
		}
		return last, false
	}
	base, ok := settle(nil)
	if !ok {
		_, dump := serverGoroutines()
		res.Inconclusive = "baseline did not settle: " + clipS(strings.ReplaceAll(dump, "\n", " | "), 600)
		return res
	}
	cycles := c19.cycles
	var wg sync.WaitGroup
	sem := make(chan struct{}, 1+r.Intn(32))
	var mu sync.Mutex
	var after counters
	desc := map[string]any{"cycles": cycles, "baseline": base.String(), "max_in_flight": cap(sem)}
	// the churn runs in segments of 1000 cycles; each segment is judged at its own fixed point with the
	// collector still off, and only then is a collection allowed (it can no longer mask that segment's leaks)
	for done := 0; done < cycles; {
		seg := 1000
		if cycles-done < seg {
			seg = cycles - done
		}
		for i := done; i < done+seg; i++ {
			mu.Lock()
			kind := rng.Pick(r, churnEndings)
			cr := rng.New(c19.seed, rng.Str("C19c"), uint64(idx), uint64(i))
			mu.Unlock()
			wg.Add(1)
			sem <- struct{}{}
			go func() {
				defer wg.Done()
				defer func() { <-sem }()
				tick := time.NewTicker(200 * time.Millisecond)
				fin := make(chan struct{})
				go func() {
					for {
						select {
						case <-tick.C:
							sconn.NextSeq() // a connection in flight is progress for the child watchdog
						case <-fin:
							tick.Stop()
							return
						}
					}
				}()
				c19churnOne(plain, tlsPort, p, cr, kind)
				close(fin)
				sconn.NextSeq()
			}()
			res.Count("churn:"+kind, 1)
		}
		wg.Wait()
		done += seg
		var settled bool
		after, settled = settle(&base)
		desc["after"] = after.String()
		desc["cycles_done"] = done
		if !settled {
			res.Inconclusive = "counters still moving at the end of the grace window: " + after.String()
			return res
		}
		if after.goroutines > base.goroutines || after.registry > base.registry || after.fds > base.fds {
			_, dump := serverGoroutines()
			fdl := ""
			if es, err := os.ReadDir("/proc/self/fd"); err == nil {
				for _, e := range es {
					t, _ := os.Readlink("/proc/self/fd/" + e.Name())
					fdl += e.Name() + "->" + t + " "
				}
			}
			what := "goroutines"
			if after.registry > base.registry {
				what = "registry"
			} else if after.fds > base.fds && after.goroutines <= base.goroutines {
				what = "descriptors"
			}
			res.Violate("C19:leak:"+what, "under connect/disconnect churn the number of server goroutines, open descriptors and registry entries returns to its idle baseline", fmt.Sprintf("baseline %s, after %d cycles %s (fixed point)\n%s\nfds: %s", base, done, after, clipS(dump, 2000), clipS(fdl, 800)), desc)
			return res
		}
		sconn.NextSeq()
		runtime.GC() // this segment's verdict is in: memory may be reclaimed now
		sconn.NextSeq()
	}
	// the server still works
	c, err := dialSrv(plain)
	if err != nil {
		res.Violate("C19:dead-after-churn", "the server keeps accepting", err.Error(), desc)
		return res
	}
	c.do("PING")
	c.c.Close()
	res.Count("churn_cycles", int64(cycles))
	res.Sample = desc
	return res
}

func init() {
	run.Register(&run.Prop{
		ID: "C19", PassiveWatchdog: true, Level: "fault_enumeration",
		Rule: func(tier string) string {
			return "two parts. (per ending, hook H1, deterministic) endings {EOF at a request boundary, EOF mid-request, reset at a boundary, reset mid-request, QUIT with a request behind it, malformed frame (peer keeps the connection open), EOF behind a request wrapped in one to three arrays, write failure on the 1st/2nd/3rd write, write accepting n bytes then failing, rejected certificate (fabricated TLS state under a common-name rule, peer keeps the connection open), server Stop while idle, server Stop while parked in the middle of a request} (plus, on real plain and TLS sockets, QUIT and a malformed frame from a client that then keeps its socket open and silent: the client must see the end of stream and no connection goroutine may stay parked on it; Stop while a client that asked for 64 MiB of replies reads none of them (connection goroutine parked in a network write): Stop must return and the socket be closed - if Stop is found parked on a lock while that write is pending, that is the violation; and Stop in the middle of a 16-goroutine connect storm: a connection that still answers after Stop returned or stays registered at a fixed point is a violation) x 0..4 preceding requests x whole/per-request delivery: the connection loop must return, the scripted socket must have been closed and Server.Conns() must not contain the connection. (churn) a child runs the bundled example server on real plain and TLS listeners; after a warm-up with one connection per ending the idle baseline {goroutines with a frame in redis.(*Server).serve/tlsServe/receive, len(Conns()), len(/proc/self/fd)} is sampled at a fixed point; then N cycles (1000 quick / 10000 thorough per case) with up to 1..32 connections in flight mix FIN, RST, half-close, mid-request, QUIT, malformed, TLS ok+FIN/RST/mid-request, TLS without certificate, TLS garbage, TLS abort after ClientHello, and a client that stops reading a large reply and resets. Verdict on the fixed point after everything is closed: a counter that stays above baseline and unchanged over the whole grace window is a leak; still moving = inconclusive"
		},
		Exhaustive:  func(string) bool { return false },
		Assumptions: []string{"stalled TLS handshakes are not part of the churn (they end only with the server's handshake deadline)"},
		Setup: func(tier string, seed uint64) int {
			c19.seed, c19.tier = seed, tier
			c19.nEnd = map[string]int{"quick": 2600, "thorough": 52000}[tier]
			c19.nChurn = map[string]int{"quick": 8, "thorough": 32}[tier]
			c19.cycles = map[string]int{"quick": 1000, "thorough": 10000}[tier]
			return c19.nEnd + c19.nChurn
		},
		Run: func(idx int) run.Result {
			// churn cases are spread over the index space so that they land in different child batches
			stride := (c19.nEnd + c19.nChurn) / c19.nChurn
			if idx%stride == 0 && idx/stride < c19.nChurn {
				return c19churn(idx / stride)
			}
			if m := idx % stride; m > 0 && m%(stride/8) == 0 {
				return c19stopStorm(idx)
			}
			if m := idx % stride; m > 0 && m%(stride/8) == 1 {
				return c19endsButPeerStays(idx)
			}
			if m := idx % stride; m > 0 && m%(stride/8) == 2 {
				return c19stopWhileNotReading(idx)
			}
			return c19ending(idx)
		},
		Describe:      func(idx int) any { return map[string]any{"sig": "c19", "idx": idx} },
		Chunk:         100,
		MinConclusive: 200,
	})
}

// busyServerGoroutines counts server goroutines that are NOT parked in an accept, in a network read of
// the request parser or in a TLS handshake read: such goroutines are still draining work (running,
// waiting for the command mutex, writing), so counters that include them are not at a fixed point
// however long they have been unchanged.
func busyServerGoroutines() int {
	_, dump := serverGoroutines()
	busy := 0
	for _, g := range strings.Split(dump, "\n\n") {
		if strings.TrimSpace(g) == "" {
			continue
		}
		acceptLoop := strings.Contains(g, ".Accept(")
		parkedInRead := strings.Contains(g, "[IO wait") && strings.Contains(g, "proto.(*Parser)") && strings.Contains(g, ".Read(")
		handshake := strings.Contains(g, "[IO wait") && strings.Contains(g, "Handshake")
		parkedAtPoint := strings.Contains(g, "sched.(*Ctl).hit")
		if !acceptLoop && !parkedInRead && !handshake && !parkedAtPoint {
			busy++
		}
	}
	return busy
}

// c19endsButPeerStays: on real sockets (plain and TLS), the connection ends by QUIT or by a malformed frame while
// the CLIENT KEEPS ITS SOCKET OPEN and sends nothing more. The server has to finish on its own: close the socket
// (the client sees EOF), end the goroutine and leave the registry. Structural verdict: once the client has seen the
// end of stream, a server goroutine with a receive frame that is parked waiting for network input can only be waiting
// for this silent peer.
func c19endsButPeerStays(idx int) run.Result {
	var res run.Result
	res.Idx = idx
	h := gen.Hash64([]byte(fmt.Sprint("peer-stays", idx)))
	how := []string{"quit", "malformed"}[h%2]
	overTLS := (h/2)%2 == 1
	res.Classes = []string{fmt.Sprintf("ending:%s-peer-keeps-socket-open:tls=%v", how, overTLS)}
	res.Key = uint64(idx) ^ 0x9017
	res.NonTrivial = true
	desc := map[string]any{"ending": how, "tls": overTLS, "client": "keeps its socket open and sends nothing after the ending"}
	s := newLcServer(map[bool]string{false: "plain", true: "tls"}[overTLS])
	if s == nil {
		res.Inconclusive = "pki unavailable"
		return res
	}
	base, _ := serverGoroutines()
	if err := s.srv.Start(); err != nil {
		res.Inconclusive = "Start failed"
		return res
	}
	defer func() {
		s.srv.Stop()
		waitGoroutines(base)
	}()
	c, err := s.dial(overTLS)
	if err != nil {
		res.Inconclusive = "client could not connect"
		return res
	}
	defer c.c.Close()
	if _, err := c.do("PING"); err != nil {
		res.Inconclusive = "PING failed"
		return res
	}
	c.c.SetDeadline(time.Now().Add(watchdog))
	if how == "quit" {
		if v, err := c.do("QUIT"); err != nil || !resp.Equal(v, resp.Status("OK")) {
			res.Violate("C19:quit-reply", "QUIT is answered +OK", fmt.Sprint(v, err), desc)
			return res
		}
	} else {
		c.c.Write([]byte("*2\r\n$3\r\nGET\r\n!boom\r\n"))
	}
	// the client must see the end of stream (it does not close its own socket)
	sawEOF := false
	buf := make([]byte, 256)
	for {
		_, err := c.c.Read(buf)
		if err != nil {
			if ne, ok := err.(net.Error); !ok || !ne.Timeout() {
				sawEOF = true
			}
			break
		}
	}
	if !sawEOF {
		res.Violate("C19:socket-not-closed:"+how+"-peer-keeps-socket-open", "the server closes the socket", "the client saw no end of stream within the watchdog after the "+how, desc)
		return res
	}
	// fixed point: no server goroutine is working
	deadline := time.Now().Add(watchdog)
	for time.Now().Before(deadline) {
		_, dump := serverGoroutines()
		parkedOnPeer, working := 0, 0
		for _, g := range strings.Split(dump, "\n\n") {
			if !strings.Contains(g, ".receive(") {
				continue
			}
			if strings.Contains(g, "[IO wait") {
				parkedOnPeer++
			} else {
				working++
			}
		}
		if parkedOnPeer == 0 && working == 0 {
			break
		}
		if working == 0 && parkedOnPeer > 0 {
			// nothing is running any more and a connection goroutine waits for input from the only client there is
			res.Violate("C19:goroutine-not-terminated:"+how+"-peer-keeps-socket-open", "the connection's goroutine terminates and the connection disappears from the registry", fmt.Sprintf("after the %s the client saw the end of stream and keeps its socket open; the connection goroutine is parked waiting for network input (registry: %d entries)\n%s", how, len(s.srv.Conns()), clipS(dump, 1200)), desc)
			return res
		}
		time.Sleep(5 * time.Millisecond)
	}
	if n := len(s.srv.Conns()); n != 0 {
		res.Violate("C19:still-registered:"+how+"-peer-keeps-socket-open", "the connection disappears from the connection registry", fmt.Sprintf("registry has %d entries", n), desc)
	}
	return res
}

// c19stopWhileNotReading: the endings "a client that stops reading" and "server Stop" together. A client asks for
// far more reply bytes than the socket buffers hold and reads none of them, so its connection goroutine is parked
// in a network write; then Stop is called. Stop has to come back, the client's socket has to be closed, the
// goroutine has to end. Structural verdict if Stop does not come back: the goroutine profile shows Stop itself
// parked on a lock (not in I/O) while the connection goroutine is parked in the write - a wait that only the
// silent client could end.
func c19stopWhileNotReading(idx int) run.Result {
	var res run.Result
	res.Idx = idx
	overTLS := gen.Hash64([]byte(fmt.Sprint("not-reading", idx)))%2 == 1
	res.Classes = []string{fmt.Sprintf("ending:stop-while-client-not-reading:tls=%v", overTLS)}
	res.Key = uint64(idx) ^ 0x7a11
	res.NonTrivial = true
	desc := map[string]any{"ending": "stop while a client is not reading", "tls": overTLS}
	s := newLcServer(map[bool]string{false: "plain", true: "tls"}[overTLS])
	if s == nil {
		res.Inconclusive = "pki unavailable"
		return res
	}
	base, _ := serverGoroutines()
	if err := s.srv.Start(); err != nil {
		res.Inconclusive = "Start failed"
		return res
	}
	c, err := s.dial(overTLS)
	if err != nil {
		s.srv.Stop()
		res.Inconclusive = "client could not connect"
		return res
	}
	defer c.c.Close()
	big := strings.Repeat("x", 1<<20)
	reqs := []resp.Value{resp.Cmd("ECHO", big)}
	for k := 0; k < 63; k++ {
		reqs = append(reqs, resp.Cmd("ECHO", big))
	}
	c.c.SetWriteDeadline(time.Now().Add(5 * time.Second))
	go c.c.Write(resp.EncodeAll(reqs...)) // the client's own send may block too once the server stops reading; it never reads
	// wait until the connection goroutine is parked in a network write
	inWrite := func() bool {
		_, dump := serverGoroutines()
		for _, g := range strings.Split(dump, "\n\n") {
			if strings.Contains(g, ".receive(") && strings.Contains(g, "[IO wait") && strings.Contains(g, ".Write(") {
				return true
			}
		}
		return false
	}
	for dl := time.Now().Add(watchdog); !inWrite() && time.Now().Before(dl); {
		time.Sleep(5 * time.Millisecond)
	}
	if !inWrite() {
		s.srv.Stop()
		res.Inconclusive = "the connection goroutine did not block in a write"
		return res
	}
	done := make(chan error, 1)
	go func() { done <- s.srv.Stop() }()
	deadline := time.Now().Add(watchdog)
	for {
		select {
		case <-done:
			if !clientClosed(c) {
				res.Violate("C19:socket-not-closed:stop-while-client-not-reading", "the server closes the socket", "the non-reading client saw neither EOF nor reset within 3 s after Stop returned", desc)
				return res
			}
			if excess, dump := waitGoroutines(base); excess > 0 && busyServerGoroutines() == 0 {
				res.Violate("C19:goroutine-not-terminated:stop-while-client-not-reading", "the connection's goroutine terminates", fmt.Sprintf("%d server goroutine(s) left:\n%s", excess, clipS(dump, 1200)), desc)
			}
			return res
		default:
		}
		if time.Now().After(deadline) {
			break
		}
		time.Sleep(50 * time.Millisecond)
		if time.Since(deadline.Add(-watchdog)) > 3*time.Second {
			var buf bytes.Buffer
			pprof.Lookup("goroutine").WriteTo(&buf, 2)
			for _, g := range strings.Split(buf.String(), "\n\n") {
				if strings.Contains(g, "redis.(*Server).Stop(") && (strings.Contains(g, "[sync.Mutex.Lock") || strings.Contains(g, "[semacquire") || strings.Contains(g, "[sync.RWMutex")) && inWrite() {
					res.Violate("C19:stop-blocked-by-non-reading-client", "however a connection ends - a client that stops reading, or server Stop - the server closes the socket and the connection's goroutine terminates", "Stop is parked on a lock while the connection goroutine is parked in a network write to a client that does not read: only that client could end the wait\n"+clipS(g, 1200), desc)
					c.c.Close() // let the server go
					select {
					case <-done:
					case <-time.After(watchdog):
					}
					return res
				}
			}
		}
	}
	res.Inconclusive = "Stop did not return within the watchdog and no structural witness was found"
	c.c.Close()
	return res
}

// c19stopStorm: the "server Stop" ending under concurrent connects (real sockets, free-running).
func c19stopStorm(idx int) run.Result {
	var res run.Result
	res.Idx = idx
	res.Classes = []string{"ending:stop-under-connect-storm"}
	res.Key = uint64(idx) ^ 0x5707
	res.NonTrivial = true
	s := newLcServer([]string{"plain", "both"}[idx%2])
	if s == nil {
		res.Inconclusive = "pki unavailable"
		return res
	}
	base, _ := serverGoroutines()
	ctl := sched.Install()
	defer func() {
		ctl.Uninstall()
		s.srv.Stop()
		waitGoroutines(base)
	}()
	if err := s.srv.Start(); err != nil {
		res.Inconclusive = "Start failed: " + err.Error()
		return res
	}
	stopStorm(&res, s, ctl, idx, 0, "C19", map[string]any{"ending": "stop-under-connect-storm", "listeners": []string{"plain", "both"}[idx%2]})
	return res
}
