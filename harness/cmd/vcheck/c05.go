package main

import (
	"fmt"
	"sort"
	"strings"
	"time"

	"github.com/cybergarage/go-redis/redis"
	"verif/double"
	"verif/gen"
	"verif/grammar"
	"verif/resp"
	"verif/rng"
	"verif/run"
	"verif/sconn"
)

var c05 struct {
	seed uint64
	tier string
	n    int
}

type c05case struct {
	Kind string // vector | unknown | custom
	V    *grammar.Vector
	Req  resp.Value
	DB   int
}

func c05get(idx int) c05case {
	r := rng.New(c05.seed, rng.Str("C05"), uint64(idx))
	tok := fmt.Sprintf("t%d", idx)
	nspec := len(grammar.Specs)
	slot := idx % (nspec + 2)
	db := rng.Pick(r, []int{0, 1, 2, 7, 15, 3})
	switch {
	case slot == nspec:
		if r.Bool() {
			// a supported command whose name is spelt with look-alike letters outside ASCII is an unknown command
			v := grammar.Generate(grammar.Specs[r.Intn(nspec)], r, tok)
			if req, ok := grammar.Lookalike(r, v); ok {
				return c05case{Kind: "unknown", Req: req, DB: db}
			}
		}
		return c05case{Kind: "unknown", Req: grammar.Unknown(r, tok), DB: db}
	case slot == nspec+1:
		// two application executors: one registered under an upper-case name, one under a mixed-case name
		name := rng.Pick(r, []string{"VERIFCMD", "verifcmd", "VerifCmd", "vErIfCmD", "VERIFMIXED", "verifmixed", "VerifMixed", "vErIfMiXeD",
			// a module-style name with non-letters (digits, dot, dash, colon, underscore)
			"VERIF.CMD-2:X_Y", "verif.cmd-2:x_y", "Verif.cmd-2:X_y", "VERIF.cmd-2:x_Y", "vERIF.CMD-2:X_Y"})
		args := []string{name}
		for i := 0; i < r.Intn(5); i++ {
			args = append(args, string(gen.BulkPayload(r, 30)))
		}
		return c05case{Kind: "custom", Req: resp.Cmd(args...), DB: db}
	}
	v := grammar.Generate(grammar.Specs[slot], r, tok)
	if r.Chance(1, 25) && v.Class == grammar.Core && len(v.Expect) == 1 {
		// one string argument that is not the last one grows to 64 KiB and beyond (arguments follow it on the wire)
		for i := 1; i+1 < len(v.Argv); i++ {
			old := string(v.Argv[i])
			if v.Slots[i].Kind != grammar.KStr || v.Slots[i].Role == "optkw" || len(old) == 0 || strings.Count(v.Expect[0].Str, double.Q(old)) != 1 {
				continue
			}
			same := 0
			for _, a := range v.Argv {
				if string(a) == old {
					same++
				}
			}
			if same != 1 {
				continue // the argument occurs twice (a repeated key): changing one occurrence would change the meaning
			}
			big := old + string(r.From([]byte("abcdefgh"), rng.Pick(r, []int{65535, 65536, 70000, 131072})))
			v.Argv[i] = []byte(big)
			v.Expect[0].Str = strings.Replace(v.Expect[0].Str, double.Q(old), double.Q(big), 1)
			v.Tags = append(v.Tags, "large-argument-followed-by-arguments")
			break
		}
	}
	return c05case{Kind: "vector", V: v, Req: v.Value(), DB: db}
}

func callStrs(cs []double.Call) []string {
	out := make([]string, len(cs))
	for i, c := range cs {
		out[i] = c.Str
	}
	return out
}

// matchCalls compares recorded calls with the grammar's expectation.
func matchCalls(v *grammar.Vector, calls []double.Call, before, after time.Time) string {
	if len(calls) != len(v.Expect) {
		return fmt.Sprintf("expected %d handler call(s) %v, recorded %d: %v", len(v.Expect), expStrs(v.Expect), len(calls), callStrs(calls))
	}
	idx := make([]int, len(calls))
	for i := range idx {
		idx[i] = i
	}
	exp := append([]grammar.Expected{}, v.Expect...)
	got := append([]double.Call{}, calls...)
	if v.Unordered {
		sort.Slice(exp, func(i, j int) bool { return exp[i].Str < exp[j].Str })
		sort.Slice(got, func(i, j int) bool { return got[i].Str < got[j].Str })
	}
	for i := range exp {
		if exp[i].Str != got[i].Str {
			return fmt.Sprintf("call %d: expected %s, recorded %s", i+1, exp[i].Str, got[i].Str)
		}
		if exp[i].Abs != nil {
			if got[i].Time == nil || !got[i].Time.Equal(*exp[i].Abs) {
				return fmt.Sprintf("call %d: expected time %v, recorded %v", i+1, exp[i].Abs, got[i].Time)
			}
		}
		if exp[i].Rel != nil {
			d := time.Duration(*exp[i].Rel) * time.Second
			if got[i].Time == nil || got[i].Time.Before(before.Add(d)) || got[i].Time.After(after.Add(d)) {
				return fmt.Sprintf("call %d: expected time in [%v,%v], recorded %v", i+1, before.Add(d), after.Add(d), got[i].Time)
			}
		}
	}
	return ""
}

func expStrs(es []grammar.Expected) []string {
	out := make([]string, len(es))
	for i, e := range es {
		out[i] = e.Str
	}
	return out
}

func c05run(idx int) run.Result {
	var res run.Result
	res.Idx = idx
	c := c05get(idx)
	rec := double.NewRec()
	srv := newServer(rec)
	var customSeen []string
	var customDB = -1
	custom := func(conn *redis.Conn, cmd string, args redis.Arguments) (*redis.Message, error) {
		customSeen = []string{cmd}
		customDB = conn.Database()
		for {
			m, err := args.NextMessage()
			if err != nil {
				break
			}
			b, _ := m.Bytes()
			customSeen = append(customSeen, string(b))
		}
		return redis.NewStringArrayMessage(customSeen), nil
	}
	srv.RegisterExexutor("VERIFCMD", custom)
	srv.RegisterExexutor("VerifMixed", custom)
	srv.RegisterExexutor("Verif.Cmd-2:x_y", custom)
	reqs := []resp.Value{resp.Cmd("SELECT", fmt.Sprint(c.DB)), c.Req}
	stream, ends := encodeReqs(reqs)
	before := time.Now()
	pr := runPipe(srv, reqs, chunkAt(stream, ends), sconn.Script{End: sconn.EOF})
	after := time.Now()
	// the request proper is the second chunk: it was not available to the server before the would-block read
	// that preceded its delivery, and its reply was written before the next one. Times the server derives from
	// "now" while executing it lie between the two, however long the connection has existed.
	if wbs := pr.Snap.WouldBlocks; len(wbs) >= 2 {
		before = wbs[1].At
		if len(wbs) >= 3 {
			after = wbs[2].At
		}
	}
	calls := rec.Snapshot()
	cmd := cmdName(c.Req)
	desc := func() any {
		return map[string]any{"kind": c.Kind, "db": c.DB, "request": clipS(c.Req.String(), 500), "request_hex": hexClip(resp.Encode(c.Req), 400),
			"calls": callStrs(calls), "reply": clipS(fmt.Sprint(pr.Frames), 300)}
	}
	res.Key = gen.Hash64(resp.Encode(c.Req))
	res.Classes = []string{"cmd:" + cmd}
	if c.Kind != "vector" {
		res.Classes = []string{"kind:" + c.Kind}
		res.NonTrivial = true
	} else {
		res.NonTrivial = c.V.NonTrivial()
		for _, t := range c.V.Tags {
			res.Count("tag:"+t, 1)
		}
	}
	res.Count("handler_calls", int64(len(calls)))
	if pr.TimedOut {
		res.Inconclusive = "watchdog: serve did not return"
		return res
	}
	sigBase := "C05:" + cmd
	if c.Kind != "vector" {
		sigBase = "C05:" + c.Kind
	}
	if pr.Panic != "" {
		res.Violate(sigBase+":panic:"+panicFrame(pr.Stack), "the request completes", pr.Panic+"\n"+clipS(pr.Stack, 2000), desc())
		return res
	}
	quit := c.Kind == "vector" && c.V.Quit
	if pr.Bad != "" || pr.Rest != 0 || len(pr.Frames) != 2 {
		res.Violate(sigBase+":frames", "exactly one reply per request", fmt.Sprintf("frames=%d rest=%d bad=%q out=%s", len(pr.Frames), pr.Rest, pr.Bad, hexClip(pr.Snap.Out, 200)), desc())
		return res
	}
	if !resp.Equal(pr.Frames[0], resp.Status("OK")) {
		res.Violate(sigBase+":select", "SELECT n answers +OK", pr.Frames[0].String(), desc())
		return res
	}
	reply := pr.Frames[1]
	for _, cl := range calls {
		if cl.DB != c.DB {
			res.Violate(sigBase+":db", "the handler sees the database selected on this connection", fmt.Sprintf("conn.Database()=%d, selected %d", cl.DB, c.DB), desc())
			return res
		}
	}
	switch c.Kind {
	case "unknown":
		if !reply.IsErr() || len(calls) != 0 {
			res.Violate(sigBase, "an unknown command yields an error reply without invoking any handler", fmt.Sprintf("reply=%s calls=%v", reply, callStrs(calls)), desc())
		}
		return res
	case "custom":
		want := []string{string(c.Req.A[0].B)}
		for _, a := range c.Req.A[1:] {
			want = append(want, string(a.B))
		}
		wv := resp.Array()
		for _, w := range want {
			wv.A = append(wv.A, resp.BulkS(w))
		}
		if strings.Join(customSeen, "\x01") != strings.Join(want, "\x01") || customDB != c.DB || !resp.Equal(reply, wv) || len(calls) != 0 {
			res.Violate(sigBase, "an executor registered by the application is dispatched case-insensitively with the untouched arguments and its result is the reply",
				fmt.Sprintf("seen=%q want=%q db=%d reply=%s", customSeen, want, customDB, clipS(reply.String(), 200)), desc())
		}
		return res
	}
	v := c.V
	if quit {
		if !resp.Equal(reply, resp.Status("OK")) || !pr.Snap.Closed {
			res.Violate(sigBase, "QUIT answers +OK and closes", reply.String(), desc())
		}
		return res
	}
	switch v.Class {
	case grammar.Core:
		if why := matchCalls(v, calls, before, after); why != "" {
			res.Violate(sigBase+":calls", "the handler is invoked exactly once with precisely the decoded arguments", why, desc())
			return res
		}
		var want resp.Value
		switch v.ReplyFromCalls {
		case "single":
			want = calls[0].Reply
		case "array":
			want = resp.Array()
			for _, cl := range calls {
				want.A = append(want.A, cl.Reply)
			}
		case "ok":
			want = resp.Status("OK")
		}
		if !resp.Equal(reply, want) {
			res.Violate(sigBase+":reply", "what the handler returns is what the client receives", fmt.Sprintf("reply=%s want=%s", clipS(reply.String(), 200), clipS(want.String(), 200)), desc())
		}
	case grammar.Framework:
		if len(calls) != 0 {
			res.Violate(sigBase+":calls", "a framework-answered command does not invoke the user handler", fmt.Sprint(callStrs(calls)), desc())
			return res
		}
		if v.Reply != nil && !resp.Equal(reply, *v.Reply) {
			res.Violate(sigBase+":reply", "the framework's own reply", fmt.Sprintf("reply=%s want=%s", clipS(reply.String(), 200), clipS(v.Reply.String(), 200)), desc())
		}
	case grammar.Derived:
		// composition is judged against the model in C12; here only completion and database
	}
	if idx%307 == 0 {
		res.Sample = desc()
	}
	return res
}

func c05finish(a *run.Agg) {
	// H3 coverage cross-check: every registered executor has a grammar entry
	srv := redis.NewServer()
	var missing []string
	for _, name := range srv.VerifCommands() {
		if _, ok := grammar.ByName[name]; !ok {
			missing = append(missing, name)
		}
	}
	a.Extra["registered_commands"] = len(srv.VerifCommands())
	a.Extra["grammar_entries"] = len(grammar.Specs)
	if len(missing) > 0 {
		a.Extra["self_check_failed"] = fmt.Sprintf("registered commands without a grammar entry: %v", missing)
	}
}

func init() {
	run.Register(&run.Prop{
		ID: "C05", Level: "exploration",
		Rule: func(tier string) string {
			return "case = one request preceded by SELECT n on a fresh scripted connection with a recording handler: round-robin over every grammar entry (independent command grammar, random letter case for command and option names, all option combinations/orders the grammar generates, binary strings incl. CR/LF/NUL, boundary ints and floats, 1..k list elements, duplicate keys), plus unknown commands (invented names, and supported names spelt with the non-ASCII letters U+017F / U+0131 that Unicode case mapping folds onto S and I) and an application-registered executor. Oracle: recorded calls == the grammar's expected calls (strings byte-exact, floats by bits, options field by field, list order, last value wins for MSET/HMSET compared as a multiset, relative expiry bracketed by in-process instants), conn.Database()==n, reply == what the double returned. distinct = hash of the request bytes; non-trivial = vector has an option, a binary byte, >=2 list elements or a duplicate key (or is an unknown/custom command)"
		},
		Assumptions: []string{"the grammar in /verif/harness/grammar (written from the Redis command reference) states the intended dispatch", "MSET/HMSET decomposition order is unspecified"},
		Setup: func(tier string, seed uint64) int {
			c05.seed, c05.tier = seed, tier
			c05.n = (len(grammar.Specs) + 2) * map[string]int{"quick": 400, "thorough": 40000}[tier]
			return c05.n
		},
		Run: c05run,
		Describe: func(idx int) any {
			c := c05get(idx)
			return map[string]any{"sig": cmdName(c.Req), "kind": c.Kind, "db": c.DB, "request": clipS(c.Req.String(), 400), "request_hex": hexClip(resp.Encode(c.Req), 300)}
		},
		Chunk:         250,
		MinConclusive: 1000,
		Finish:        c05finish,
	})
}
