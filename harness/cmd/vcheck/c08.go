package main

import (
	"crypto/tls"
	"fmt"
	"strings"
	"sync"
	"time"

	"github.com/cybergarage/go-redis/redis"
	"verif/double"
	"verif/gen"
	"verif/grammar"
	"verif/resp"
	"verif/rng"
	"verif/run"
	"verif/sconn"
)

const c08pass = "Secr3t"

// c08old is the password the server was configured with before c08pass in the batches whose server went
// through Start / Stop / SetRequirePass(c08pass) / Start (see c08server). Everywhere it is just a wrong password.
const c08old = "0ld-Secr3t"

type c08sym struct {
	Name string
	Req  resp.Value
	// classification
	IsAuth   bool
	Exact1   bool // one-argument AUTH carrying exactly the password: must succeed
	MustFail bool // AUTH that must be refused
	DontCare bool // AUTH <""|default> <password>: either outcome accepted, shadow follows the reply
}

var c08 struct {
	seed   uint64
	tier   string
	full   []c08sym // full alphabet (1 connection)
	small  []c08sym // reduced alphabet (2..3 connections)
	blocks []c08block
	nEnum  int
	nRand  int
	once   sync.Once
	srv    *redis.Server
	port   int
}

type c08step struct {
	Conn, Sym int
	Custom    *c08sym // a data command generated from the grammar (random words only)
}
type c08word struct {
	Conns int
	Small bool
	Steps []c08step
}

func c08alphabets() {
	var full []c08sym
	auth1 := func(name string, v resp.Value, exact bool) {
		full = append(full, c08sym{Name: name, Req: resp.Array(resp.BulkS("AUTH"), v), IsAuth: true, Exact1: exact, MustFail: !exact})
	}
	auth1("AUTH <P>", resp.BulkS(c08pass), true)
	auth1(`AUTH ""`, resp.BulkS(""), false)
	auth1("AUTH <null>", resp.NullBulk(), false)
	for i := 1; i < len(c08pass); i++ {
		auth1(fmt.Sprintf("AUTH <prefix %d>", i), resp.BulkS(c08pass[:i]), false)
	}
	auth1("AUTH <P+x>", resp.BulkS(c08pass+"x"), false)
	auth1("AUTH <P+NUL>", resp.BulkS(c08pass+"\x00"), false)
	auth1("AUTH <NUL+P>", resp.BulkS("\x00"+c08pass), false)
	auth1("AUTH <case-swapped>", resp.BulkS("sECR3T"), false)
	auth1("AUTH <lower>", resp.BulkS(strings.ToLower(c08pass)), false)
	auth1("AUTH <P with CRLF inside>", resp.BulkS("Sec\r\nr3t"), false)
	auth1("AUTH <P+CRLF>", resp.BulkS(c08pass+"\r\n"), false)
	auth1("AUTH <space+P>", resp.BulkS(" "+c08pass), false)
	auth1("AUTH <previous password>", resp.BulkS(c08old), false)
	full = append(full, c08sym{Name: "AUTH (no argument)", Req: resp.Cmd("AUTH"), IsAuth: true, MustFail: true})
	full = append(full, c08sym{Name: "AUTH a b c", Req: resp.Cmd("AUTH", "default", c08pass, "x"), IsAuth: true, DontCare: true})
	// surplus arguments never make a wrong password right (whether the exact password with a surplus argument is
	// accepted is the framework's own business: the reply decides)
	full = append(full, c08sym{Name: "AUTH a wrong c", Req: resp.Cmd("AUTH", "default", "wrong", c08pass), IsAuth: true, MustFail: true})
	full = append(full, c08sym{Name: "AUTH '' wrong c", Req: resp.Cmd("AUTH", "", c08pass+"x", c08pass), IsAuth: true, MustFail: true})
	two := func(u string, p resp.Value, kind string) {
		s := c08sym{Name: fmt.Sprintf("AUTH %q %s", u, p), Req: resp.Array(resp.BulkS("AUTH"), resp.BulkS(u), p), IsAuth: true}
		switch kind {
		case "fail":
			s.MustFail = true
		case "dontcare":
			s.DontCare = true
		}
		full = append(full, s)
	}
	for _, u := range []string{"", "default", "admin", c08pass} {
		for _, x := range []resp.Value{resp.BulkS(""), resp.BulkS("Secr3"), resp.BulkS(c08pass + "x"), resp.NullBulk()} {
			two(u, x, "fail") // wrong password: refused for every user name
		}
	}
	two("admin", resp.BulkS(c08pass), "fail") // wrong user name
	two(c08pass, resp.BulkS(c08pass), "fail")
	two("", resp.BulkS(c08pass), "dontcare")
	two("default", resp.BulkS(c08pass), "dontcare")
	data := []c08sym{
		{Name: "GET k", Req: resp.Cmd("GET", "k")},
		{Name: "PING", Req: resp.Cmd("PING")},
		{Name: "ECHO x", Req: resp.Cmd("ECHO", "x")},
		{Name: "SELECT 1", Req: resp.Cmd("SELECT", "1")},
		{Name: "CONFIG GET requirepass", Req: resp.Cmd("CONFIG", "GET", "requirepass")},
		{Name: "SET k v", Req: resp.Cmd("SET", "k", "v")},
		{Name: "STRLEN k", Req: resp.Cmd("STRLEN", "k")},
		{Name: "auth-lowercase-as-data: HGET h f", Req: resp.Cmd("HGET", "h", "f")},
	}
	full = append(full, data...)
	c08.full = full
	c08.small = []c08sym{full[0], full[1], full[3+len(c08pass)-2], data[0], data[1]}
}

// enumerated blocks: all words up to maxLen over (connections x symbols); a word is computed from its
// index by mixed-radix arithmetic (nothing is materialised: the thorough tier has millions of words)
type c08block struct {
	Conns, NSym, MaxLen int
	Small               bool
	Count               int
}

func (b c08block) size() int {
	base := b.Conns * b.NSym
	n, p := 0, 1
	for l := 1; l <= b.MaxLen; l++ {
		p *= base
		n += p
	}
	return n
}

func (b c08block) word(i int) c08word {
	base := b.Conns * b.NSym
	l, p := 1, base
	for i >= p {
		i -= p
		p *= base
		l++
	}
	w := c08word{Conns: b.Conns, Small: b.Small, Steps: make([]c08step, l)}
	for k := l - 1; k >= 0; k-- {
		x := i % base
		i /= base
		w.Steps[k] = c08step{Conn: x / b.NSym, Sym: x % b.NSym}
	}
	return w
}

func c08setup(tier string, seed uint64) int {
	c08.seed, c08.tier = seed, tier
	c08alphabets()
	l1 := map[string]int{"quick": 3, "thorough": 4}[tier]
	c08.blocks = []c08block{
		{Conns: 1, NSym: len(c08.full), MaxLen: l1},
		{Conns: 2, NSym: len(c08.small), MaxLen: 4, Small: true},
		{Conns: 3, NSym: len(c08.small), MaxLen: 3, Small: true},
	}
	c08.nEnum = 0
	for i := range c08.blocks {
		c08.blocks[i].Count = c08.blocks[i].size()
		c08.nEnum += c08.blocks[i].Count
	}
	c08.nRand = map[string]int{"quick": 6000, "thorough": 200000}[tier]
	return c08.nEnum + c08.nRand
}

func c08get(idx int) c08word {
	if idx < c08.nEnum {
		i := idx
		for _, b := range c08.blocks {
			if i < b.Count {
				return b.word(i)
			}
			i -= b.Count
		}
	}
	r := rng.New(c08.seed, rng.Str("C08"), uint64(idx))
	w := c08word{Conns: 1 + r.Intn(3)}
	n := 1 + r.Intn(30)
	for i := 0; i < n; i++ {
		s := r.Intn(len(c08.full))
		if r.Chance(1, 4) {
			s = 0 // the exact password appears often so that later steps run authorized
		}
		st := c08step{Conn: r.Intn(w.Conns), Sym: s}
		if r.Chance(1, 2) {
			// a data command drawn from the whole command surface
			spec := rng.Pick(r, grammar.Specs)
			for spec.Name == "AUTH" || spec.Name == "QUIT" {
				spec = rng.Pick(r, grammar.Specs)
			}
			v := grammar.Generate(spec, r, "g")
			st.Custom = &c08sym{Name: "grammar:" + spec.Name, Req: v.Value()}
		}
		w.Steps = append(w.Steps, st)
	}
	return w
}

func (w c08word) sym(s c08step) c08sym {
	if s.Custom != nil {
		return *s.Custom
	}
	if w.Small {
		return c08.small[s.Sym]
	}
	return c08.full[s.Sym]
}

func (w c08word) describe() any {
	var steps []string
	for _, s := range w.Steps {
		steps = append(steps, fmt.Sprintf("c%d: %s", s.Conn, w.sym(s).Name))
	}
	return map[string]any{"connections": w.Conns, "word": steps}
}

// c08mode: how the server of a batch of cases came to require c08pass. Batches rotate over
//
//		0 freshly started with c08pass
//		1 started with c08old, stopped, SetRequirePass(c08pass), started again
//		2 started WITHOUT a password; a client then issued CONFIG SET requirepass c08pass
//		3 started with c08old; an authorized client then issued CONFIG SET requirepass c08pass (no restart)
//	  4 started with c08old; after a first AUTH had run, the APPLICATION called SetRequirePass(c08pass) (no restart)
//	  5 freshly started with c08pass; after a first AUTH had run, the APPLICATION called ClearAuthenticators() (to
//	    replace its own authenticators): the configuration still requires the password
func c08mode(idx int) int { return (idx / c08chunk) % 6 }

var c08modeName = []string{"freshly-started", "password-changed-across-restart", "password-set-at-run-time-by-CONFIG-SET", "password-changed-at-run-time-by-CONFIG-SET", "password-changed-at-run-time-by-SetRequirePass", "authenticators-cleared-at-run-time"}

const c08chunk = 400

func c08server(idx int) *redis.Server {
	c08.once.Do(func() {
		srv := redis.NewServer()
		mode := c08mode(idx)
		switch mode {
		case 0, 5:
			srv.SetRequirePass(c08pass)
		case 1, 3, 4:
			srv.SetRequirePass(c08old)
		}
		for attempt := 0; attempt < 10; attempt++ {
			c08.port = freePort()
			srv.SetPort(c08.port)
			if err := srv.Start(); err == nil {
				c08.srv = srv
				break
			}
		}
		if c08.srv == nil {
			return
		}
		switch mode {
		case 1:
			if err := srv.Stop(); err != nil {
				c08.srv = nil
				return
			}
			srv.SetRequirePass(c08pass)
			if err := srv.Start(); err != nil {
				c08.srv = nil
			}
		case 4:
			srv.SetCommandHandler(double.NewRec())
			reqs := []resp.Value{resp.Cmd("AUTH", "not-the-password"), resp.Cmd("AUTH", c08old), resp.Cmd("PING")}
			stream, ends := encodeReqs(reqs)
			runPipe(srv, reqs, chunkAt(stream, ends), sconn.Script{End: sconn.EOF})
			srv.SetRequirePass(c08pass)
		case 5:
			srv.SetCommandHandler(double.NewRec())
			reqs := []resp.Value{resp.Cmd("AUTH", "not-the-password"), resp.Cmd("AUTH", c08pass), resp.Cmd("PING")}
			stream, ends := encodeReqs(reqs)
			runPipe(srv, reqs, chunkAt(stream, ends), sconn.Script{End: sconn.EOF})
			srv.ClearAuthenticators()
		case 2, 3:
			srv.SetCommandHandler(double.NewRec())
			var reqs []resp.Value
			if mode == 3 {
				reqs = append(reqs, resp.Cmd("AUTH", c08old))
			}
			reqs = append(reqs, resp.Cmd("CONFIG", "SET", "requirepass", c08pass))
			stream, ends := encodeReqs(reqs)
			pr := runPipe(srv, reqs, chunkAt(stream, ends), sconn.Script{End: sconn.EOF})
			for _, f := range pr.Frames {
				if !resp.Equal(f, resp.Status("OK")) {
					c08.srv = nil // the set-up itself was refused: nothing to judge
				}
			}
			if len(pr.Frames) != len(reqs) {
				c08.srv = nil
			}
		}
	})
	return c08.srv
}

func c08run(idx int) run.Result {
	var res run.Result
	res.Idx = idx
	w := c08get(idx)
	srv := c08server(idx)
	if srv == nil {
		res.Inconclusive = "could not start the password-protected server on a loopback port"
		return res
	}
	rec := double.NewRec()
	srv.SetCommandHandler(rec)
	var key []byte
	for _, s := range w.Steps {
		key = append(key, byte(s.Conn), byte(s.Sym), byte(w.Conns))
		if s.Custom != nil {
			key = append(key, resp.Encode(s.Custom.Req)...)
		}
	}
	if w.Small {
		key = append(key, 's')
	}
	res.Key = gen.Hash64(key)
	res.NonTrivial = len(w.Steps) >= 2
	res.Classes = []string{fmt.Sprintf("conns=%d", w.Conns), "server=" + c08modeName[c08mode(idx)]}
	conns := make([]*sconn.Conn, w.Conns)
	waits := make([]func(time.Duration) double.ServeResult, w.Conns)
	for i := range conns {
		conns[i] = sconn.New(sconn.Script{End: sconn.Hold})
		// in every fourth case the odd connections arrive the way connections of the TLS port do: with a completed
		// handshake (no common-name rule is configured, so the certificate check has nothing to refuse). The
		// password gate is the same for them.
		var st any
		if idx%4 == 3 && i%2 == 1 {
			st = &tls.ConnectionState{HandshakeComplete: true}
		}
		waits[i] = double.Start(srv, conns[i], st)
	}
	defer func() {
		for i := range conns {
			conns[i].End(sconn.EOF)
			waits[i](serveWait)
		}
	}()
	var replies [][]byte
	shadow := make([]bool, w.Conns) // authorized?
	outPos := make([]int, w.Conns)
	callPos := 0
	viol := func(clause, name, detail string, step int) {
		d := w.describe().(map[string]any)
		d["failed_at_step"] = step
		res.Violate("C08:"+clause+":"+name, clauseText[clause], detail, d)
	}
	for si, st := range w.Steps {
		sym := w.sym(st)
		c := conns[st.Conn]
		c.Feed(resp.Encode(sym.Req))
		if err := c.WaitIdle(serveWait); err != nil {
			res.Inconclusive = "watchdog: no reply"
			return res
		}
		out := c.OutFrom(outPos[st.Conn])
		outPos[st.Conn] += len(out)
		frames, _, rest, bad, _ := resp.DecodeAll(out)
		res.Count("requests", 1)
		if bad != "" || rest != 0 || len(frames) != 1 {
			viol("frame", sym.Name, fmt.Sprintf("step %d: %d frames (rest %d, %q)", si, len(frames), rest, bad), si)
			return res
		}
		reply := frames[0]
		replies = append(replies, out)
		calls := rec.Snapshot()
		newCalls := calls[callPos:]
		callPos = len(calls)
		ok := resp.Equal(reply, resp.Status("OK"))
		if sym.IsAuth {
			res.Count("auth_requests", 1)
			if len(newCalls) != 0 {
				viol("a", sym.Name, fmt.Sprintf("step %d: AUTH reached the user handler: %v", si, callStrs(newCalls)), si)
				return res
			}
			switch {
			case sym.Exact1:
				if !ok {
					viol("c", sym.Name, fmt.Sprintf("step %d: a plain AUTH with the exact password answered %s", si, reply), si)
					return res
				}
				shadow[st.Conn] = true
			case sym.MustFail:
				if !reply.IsErr() {
					viol("b", sym.Name, fmt.Sprintf("step %d on a connection whose shadow state is authorized=%v: answered %s", si, shadow[st.Conn], reply), si)
					return res
				}
				res.Count("auth_refused", 1)
			case sym.DontCare:
				if ok {
					shadow[st.Conn] = true
				} else if !reply.IsErr() {
					viol("b", sym.Name, fmt.Sprintf("step %d: answered %s", si, reply), si)
					return res
				}
			}
			continue
		}
		// data command
		if shadow[st.Conn] {
			// (d) a refused AUTH must not have revoked anything: still served
			if reply.IsErr() && strings.Contains(string(reply.B), "auth") {
				viol("d", sym.Name, fmt.Sprintf("step %d: connection c%d authenticated earlier but got %s", si, st.Conn, reply), si)
				return res
			}
			res.Count("served_after_auth", 1)
		} else {
			// (a)/(e): nothing but AUTH runs before the exact password was presented on this connection
			if len(newCalls) != 0 || !reply.IsErr() {
				cl := "a"
				for j, s := range shadow {
					if j != st.Conn && s {
						cl = "e"
					}
				}
				viol(cl, sym.Name, fmt.Sprintf("step %d: connection c%d never presented the password, yet %s answered %s (handler calls %v)", si, st.Conn, sym.Name, reply, callStrs(newCalls)), si)
				return res
			}
			res.Count("refused_before_auth", 1)
		}
	}
	// a sample of the words is replayed over real TCP against the started listener:
	// the replies must be byte-identical to the hooked run
	if idx%41 == 0 && len(replies) == len(w.Steps) {
		clients := make([]*tcpClient, w.Conns)
		for i := range clients {
			c, err := dialSrv(c08.port)
			if err != nil {
				res.Inconclusive = "tcp replay: dial failed: " + err.Error()
				return res
			}
			defer c.c.Close()
			clients[i] = c
		}
		for si, st := range w.Steps {
			t := clients[st.Conn]
			t.c.SetDeadline(time.Now().Add(20 * time.Second))
			t.c.Write(resp.Encode(w.sym(st).Req))
			v, err := t.read()
			if err != nil || string(resp.Encode(v)) != string(replies[si]) {
				viol("tcp", w.sym(st).Name, fmt.Sprintf("step %d over TCP answered %v (%v); over the hooked connection %s", si, v, err, hexClip(replies[si], 80)), si)
				return res
			}
		}
		res.Count("words_replayed_over_tcp", 1)
	}
	if idx%499 == 0 {
		res.Sample = w.describe()
	}
	return res
}

var clauseText = map[string]string{
	"frame": "every request gets exactly one reply",
	"tcp":   "the gate behaves over real TCP exactly as over the hooked connection",
	"a":     "(a) a command other than AUTH is executed only after an AUTH with exactly the configured password succeeded on that same connection",
	"b":     "(b) AUTH with anything but the exact password is refused",
	"c":     "(c) a plain AUTH with the exact password always succeeds",
	"d":     "(d) a refused AUTH leaves the connection's authorization unchanged",
	"e":     "(e) authorization is per connection and never acquired through another connection's AUTH",
}

func init() {
	run.Register(&run.Prop{
		ID: "C08", Level: "exploration",
		Rule: func(tier string) string {
			l1 := map[string]int{"quick": 3, "thorough": 4}[tier]
			return fmt.Sprintf("case = one word of requests over 1..3 lock-step scripted connections (hook H1) on a server with SetRequirePass(%q) after Start() on a loopback port - batches of 400 cases rotate over six ways the server came to require that password (the fifth: the application calls SetRequirePass on the running server after AUTHs have already been handled; the sixth: the application calls ClearAuthenticators() on the running server, the configuration still requiring the password): freshly started with it; started with another password, stopped, reconfigured and started again; started without a password and then told CONFIG SET requirepass by a client; started with another password and then told CONFIG SET requirepass by an authorized client, without a restart (the previous password is one more wrong candidate of the dictionary); in every fourth case the odd connections carry a TLS connection state, as connections of the TLS port do; the driver delivers one request to one chosen connection and waits for its reply, so an interleaving is a word over (connection, request). Alphabet (1 connection): AUTH with each candidate of a dictionary around the password ('', null bulk, every strict prefix, password+suffix, +NUL, NUL+, case variants, CRLF inside/after, leading space, the password), AUTH with 0 and 3 arguments, two-argument forms (4 user names x wrong passwords, wrong user + right password, ''/default + right password) and 8 data commands; ALL words of length <=%d on 1 connection, ALL words of length <=4 on 2 connections and <=3 on 3 connections over the reduced alphabet {AUTH P, AUTH '', AUTH prefix, GET, PING} x connection index; then seeded random words up to length 30. Monitor = per-connection shadow automaton {unauth,auth}; violations: a handler call or non-error reply to a non-AUTH request on an unauth connection, a wrong AUTH answered non-error, the exact one-argument AUTH not answered +OK, an authorized connection refused after a failed AUTH, authorization leaking between connections. distinct = the word; non-trivial = length >= 2", c08pass, l1)
		},
		Exhaustive:  func(string) bool { return false },
		Assumptions: []string{"AUTH <''|default> <password> may be accepted or refused (the statement does not fix the configured user name); the shadow follows the reply", "QUIT before authentication is not generated"},
		Setup:       c08setup,
		Run:         c08run,
		Describe: func(idx int) any {
			w := c08get(idx)
			d := w.describe().(map[string]any)
			d["sig"] = fmt.Sprintf("conns=%d", w.Conns)
			return d
		},
		Chunk:         c08chunk,
		MinConclusive: 500,
	})
}
