package main

import (
	"bytes"
	"context"
	"fmt"
	"os"
	"os/exec"
	"path/filepath"
	"regexp"
	"runtime/debug"
	"strconv"
	"strings"
	"sync"
	"sync/atomic"
	"time"

	"github.com/cybergarage/go-redis/redis/proto"
	"verif/gen"
	"verif/resp"
	"verif/rng"
	"verif/run"
	"verif/sconn"
)

type c06case struct {
	Class  string
	Stream []byte
	Chunk  int // 0 = whole, n = fixed-size chunks
}

var c06 struct {
	seed  uint64
	tier  string
	exh   []resp.Value
	fixed []c06case // enumerated part
	nRand int
}

func c06fixed() []c06case {
	var out []c06case
	// base streams: small valid values and command arrays
	bases := [][]byte{
		resp.Encode(resp.Cmd("SET", "k", "v")),
		resp.Encode(resp.Cmd("PING")),
		resp.Encode(resp.BulkS("hello")),
		resp.Encode(resp.BulkS("")),
		resp.Encode(resp.NullBulk()),
		resp.Encode(resp.Array()),
		resp.Encode(resp.Array(resp.Int(1), resp.Array(resp.BulkS("x"), resp.Status("OK")))),
		resp.EncodeAll(resp.Cmd("GET", "k"), resp.Cmd("LPOP", "l", "5")),
		resp.EncodeAll(resp.Status("OK"), resp.Error("ERR x"), resp.Int(-3)),
		resp.Encode(resp.Array(resp.Array(resp.Array(resp.BulkS("deep"))))),
	}
	// (A) every length/count prefix replaced by every boundary edit
	for _, b := range bases {
		for _, sp := range gen.PrefixSpans(b) {
			for _, e := range gen.LengthEdits {
				out = append(out, c06case{Class: "length-edit", Stream: gen.Splice(b, sp[0], sp[1], []byte(e))})
			}
		}
	}
	// explicit allocation bombs (header only, and header followed by a little data)
	for _, e := range gen.LengthEdits {
		for _, k := range []string{"$", "*"} {
			out = append(out, c06case{Class: "bomb-header", Stream: []byte(k + e + "\r\n")})
			out = append(out, c06case{Class: "bomb-header", Stream: []byte(k + e + "\r\nabc\r\n")})
			out = append(out, c06case{Class: "bomb-header", Stream: []byte("*2\r\n$3\r\nGET\r\n" + k + e + "\r\n")})
			out = append(out, c06case{Class: "bomb-header", Stream: []byte("*1\r\n*1\r\n" + k + e + "\r\n")})
		}
	}
	// (B) truncation at every offset
	for _, b := range bases {
		for o := 0; o < len(b); o++ {
			out = append(out, c06case{Class: "truncate", Stream: b[:o]})
			out = append(out, c06case{Class: "truncate", Stream: b[:o], Chunk: 1})
		}
	}
	// every single byte, every pair of structural bytes
	for c := 0; c < 256; c++ {
		out = append(out, c06case{Class: "single-byte", Stream: []byte{byte(c)}})
		out = append(out, c06case{Class: "single-byte", Stream: []byte{byte(c), '\r', '\n'}})
	}
	st := []byte("+-:$*\r\n019 ")
	for _, s := range gen.Strings(st, 3) {
		out = append(out, c06case{Class: "structural-3gram", Stream: s})
	}
	// (E) deep nesting
	for _, d := range []int{10, 1000, 10000, 100000, 262000} {
		out = append(out, c06case{Class: "deep-nesting", Stream: bytes.Repeat([]byte("*1\r\n"), d)})
		out = append(out, c06case{Class: "deep-nesting", Stream: append(bytes.Repeat([]byte("*1\r\n"), d), []byte(":1\r\n")...)})
		out = append(out, c06case{Class: "deep-nesting", Stream: append(bytes.Repeat([]byte("*2\r\n:0\r\n"), d/2), []byte(":1\r\n")...)})
	}
	// beyond the 1 MiB bound of the quantifier: nesting as deep as one client can send in 16 MiB
	out = append(out, c06case{Class: "deep-nesting-16MiB", Stream: bytes.Repeat([]byte("*1\r\n"), 4<<20)})
	out = append(out, c06case{Class: "deep-nesting-16MiB", Stream: append(bytes.Repeat([]byte("*1\r\n"), 4<<20), []byte(":1\r\n")...)})
	// 32 MiB of nothing but line ends (what a client holding down the return key sends), alone and in front of a request
	out = append(out, c06case{Class: "blank-lines-32MiB", Stream: bytes.Repeat([]byte("\r\n"), 16<<20)})
	out = append(out, c06case{Class: "blank-lines-32MiB", Stream: append(bytes.Repeat([]byte("\n"), 32<<20), []byte("*1\r\n$4\r\nPING\r\n")...)})
	// wide arrays within 1 MiB
	// many short bulk strings on one parser whose payloads add up to just below, exactly and just above a power of two
	// (what a parser keeps from value to value - a block it carves short strings from, a pooled buffer - meets its end
	// with a few bytes left), followed by a short bulk of every small size; valid streams, top level and as one array
	for _, block := range []int{4096, 8192, 16384, 32768, 65536} {
		unit := 256
		if block == 65536 {
			unit = 1024
		}
		for d := 0; d <= 6; d++ {
			for last := 1; last <= 6; last++ {
				var vs []resp.Value
				for total := 0; total+unit <= block-unit; total += unit {
					vs = append(vs, resp.Bulk(bytes.Repeat([]byte("a"), unit)))
				}
				vs = append(vs, resp.Bulk(bytes.Repeat([]byte("b"), unit-d)), resp.Bulk(bytes.Repeat([]byte("c"), last)), resp.BulkS("end"))
				out = append(out, c06case{Class: "many-short-bulks", Stream: resp.EncodeAll(vs...)})
				if block == 65536 || (d+last)%5 == 0 {
					out = append(out, c06case{Class: "many-short-bulks", Stream: resp.Encode(resp.Array(vs...))})
				}
			}
		}
	}
	out = append(out, c06case{Class: "wide", Stream: append([]byte("*200000\r\n"), bytes.Repeat([]byte(":1\r\n"), 200000)...)})
	out = append(out, c06case{Class: "wide", Stream: append([]byte("*200001\r\n"), bytes.Repeat([]byte(":1\r\n"), 200000)...)})
	out = append(out, c06case{Class: "wide", Stream: append([]byte("$1000000\r\n"), bytes.Repeat([]byte("x"), 1000000)...)})
	return out
}

func c06get(idx int) c06case {
	if idx < len(c06.fixed) {
		return c06.fixed[idx]
	}
	r := rng.New(c06.seed, rng.Str("C06"), uint64(idx))
	switch r.Intn(10) {
	case 0, 1:
		var b []byte
		for i := 0; i < 1+r.Intn(3); i++ {
			b = append(b, gen.NearValid(r, 0)...)
		}
		return c06case{Class: "near-valid", Stream: b, Chunk: r.Intn(3)}
	default:
		var vs []resp.Value
		for i := 0; i < 1+r.Intn(3); i++ {
			if r.Bool() {
				vs = append(vs, rng.Pick(r, c06.exh))
			} else {
				vs = append(vs, gen.Tree(r, gen.Opt{MaxBulk: 200, MaxArity: 5, MaxDepth: 4}, 0))
			}
		}
		b := resp.EncodeAll(vs...)
		for i := 0; i < 1+r.Intn(4); i++ {
			b = gen.Mutate(r, b)
		}
		return c06case{Class: "mutated", Stream: b, Chunk: r.Intn(3)}
	}
}

// c06drive runs Parser.Next() to the end of the stream under the oracle.
func c06drive(stream []byte, chunk int) (sig, clause, detail string, values int, errs int) {
	var chunks [][]byte
	if chunk <= 0 {
		chunks = [][]byte{stream}
	} else {
		chunks = fixedChunks(stream, chunk, 0)
	}
	conn := sconn.New(sconn.Script{Chunks: chunks, End: sconn.EOF})
	p := proto.NewParserWithReader(conn)
	defer func() {
		if e := recover(); e != nil {
			st := string(debug.Stack())
			sig = "panic:" + panicFrame(st)
			clause = "Parser.Next() never panics"
			detail = fmt.Sprintf("%v\n%s", e, clipS(st, 2500))
		}
	}()
	for iter := 0; iter <= len(stream)+1; iter++ {
		m, err := p.Next()
		if err != nil {
			errs++
			return "", "", "", values, errs
		}
		if m == nil {
			return "", "", "", values, errs
		}
		values++
		_, absent, werr := walkProto(m)
		if absent {
			return "absent-element", "a returned array never contains absent elements", fmt.Sprintf("value %d of the stream has an array whose Next() ran dry before Size() (or a nil array)", iter), values, errs
		}
		_ = werr
	}
	return "no-termination", "reading terminates", "more values than bytes", values, errs
}

// panicFrame extracts the innermost go-redis frame of a stack.
func panicFrame(st string) string {
	for _, l := range strings.Split(st, "\n") {
		l = strings.TrimSpace(l)
		if strings.HasPrefix(l, "github.com/cybergarage/go-redis/") {
			if i := strings.LastIndex(l, "("); i > 0 {
				l = l[:i]
			}
			return strings.TrimPrefix(l, "github.com/cybergarage/go-redis/")
		}
	}
	return "?"
}

// c06concurrent: parsers are independent of each other - a server has one per connection, all running at once, and
// "never aborts the process" has to hold for the process. A FRESH process (`vcheck c06-concurrent`) releases 16
// goroutines together, 256 times, each with its own parser over hostile streams (every possible first byte, then
// generated hostile streams); anything the parsers share and write (a cache, a pool, a table filled on first use)
// is hit while it is still cold. Verdict: the process must end by itself with status 0 (a runtime "fatal error:
// concurrent map ..." cannot be recovered and kills it).
func c06concurrent(idx, k int) run.Result {
	var res run.Result
	res.Idx = idx
	res.Classes = []string{"concurrent-parsers"}
	res.Key = gen.Hash64([]byte(fmt.Sprint("concurrent", k)))
	res.NonTrivial = true
	sconn.NextSeq()
	self, err := os.Executable()
	if err != nil {
		res.Inconclusive = "own executable unknown"
		return res
	}
	ctx, cancel := context.WithTimeout(context.Background(), 150*time.Second)
	defer cancel()
	cmd := exec.CommandContext(ctx, self, "c06-concurrent", fmt.Sprint(c06.seed), fmt.Sprint(k))
	var stderr bytes.Buffer
	cmd.Stderr = &stderr
	done := make(chan struct{})
	go func() {
		for {
			select {
			case <-done:
				return
			case <-time.After(500 * time.Millisecond):
				sconn.NextSeq()
			}
		}
	}()
	out, runErr := cmd.Output()
	close(done)
	if ctx.Err() != nil {
		res.Inconclusive = "watchdog: the concurrent-parsers process did not finish"
		return res
	}
	var parsed int64
	fmt.Sscanf(string(out), "PARSED %d", &parsed)
	res.Count("streams_parsed_concurrently", parsed)
	if runErr != nil || parsed == 0 {
		first := firstLineOf(stderr.String(), "fatal error:", "panic:", "PANIC")
		res.Violate("C06:concurrent-parsers:"+clipS(first, 60), "reading never panics or aborts the process (16 parsers over hostile streams at the same time, in a fresh process)", fmt.Sprintf("the process ended with %v: %s", runErr, clipS(stderr.String(), 1500)), map[string]any{"class": "concurrent-parsers", "k": k})
	}
	return res
}

// c06ConcurrentMain: `vcheck c06-concurrent <seed> <k>`.
func c06ConcurrentMain(args []string) int {
	if len(args) < 2 {
		return 2
	}
	seed, _ := strconv.ParseUint(args[0], 10, 64)
	k, _ := strconv.Atoi(args[1])
	c06.seed, c06.tier = seed, "quick"
	c06.exh = gen.Exhaustive()
	c06.fixed = c06fixed()
	c06.nRand = 60000
	r := rng.New(seed, rng.Str("C06conc"), uint64(k))
	// the hostile streams every goroutine goes through after its first-byte stream (bounded in size)
	var pool [][]byte
	for len(pool) < 40 {
		c := c06get(r.Intn(len(c06.fixed) + c06.nRand))
		if len(c.Stream) <= 1<<16 {
			pool = append(pool, c.Stream)
		}
	}
	order := make([]int, 256)
	for i := range order {
		order[i] = i
	}
	for i := len(order) - 1; i > 0; i-- {
		j := r.Intn(i + 1)
		order[i], order[j] = order[j], order[i]
	}
	var parsed, panics int64
	var firstPanic atomic.Value
	for _, b := range order {
		start := make(chan struct{})
		var wg sync.WaitGroup
		for g := 0; g < 16; g++ {
			wg.Add(1)
			go func(g int) {
				defer wg.Done()
				<-start
				streams := [][]byte{{byte(b), 'x', '\r', '\n'}, {'*', '1', '\r', '\n', byte(b), '\r', '\n'}}
				for i := 0; i < 6; i++ {
					streams = append(streams, pool[(g*7+i*3+b)%len(pool)])
				}
				for _, st := range streams {
					func() {
						defer func() {
							if p := recover(); p != nil {
								atomic.AddInt64(&panics, 1)
								firstPanic.CompareAndSwap(nil, fmt.Sprint(p))
							}
						}()
						p := proto.NewParserWithBytes(st)
						for n := 0; n < 1<<20; n++ {
							m, err := p.Next()
							if err != nil || m == nil {
								break
							}
						}
						atomic.AddInt64(&parsed, 1)
					}()
				}
			}(g)
		}
		close(start)
		wg.Wait()
	}
	if panics > 0 {
		fmt.Fprintf(os.Stderr, "PANIC in %d parses, first: %v\n", panics, firstPanic.Load())
		return 3
	}
	fmt.Printf("PARSED %d\n", parsed)
	return 0
}

func c06run(idx int) run.Result {
	if base := len(c06.fixed) + c06.nRand; idx >= base {
		return c06concurrent(idx, idx-base)
	}
	var res run.Result
	res.Idx = idx
	c := c06get(idx)
	res.Classes = []string{c.Class}
	res.Key = gen.Hash64(c.Stream) ^ uint64(c.Chunk)
	_, _, st, _ := resp.Decode(c.Stream)
	res.NonTrivial = st != resp.Complete || c.Class != "mutated"
	sig, clause, detail, values, errs := c06drive(c.Stream, c.Chunk)
	res.Count("values_returned", int64(values))
	res.Count("errors_returned", int64(errs))
	if clause != "" {
		res.Violate("C06:"+sig, clause, detail, map[string]any{"class": c.Class, "stream_hex": hexClip(c.Stream, 300), "len": len(c.Stream), "chunk": c.Chunk})
	}
	if idx%503 == 0 {
		res.Sample = map[string]any{"class": c.Class, "stream_hex": hexClip(c.Stream, 120), "values": values, "errors": errs}
	}
	return res
}

func init() {
	extra["c06-concurrent"] = c06ConcurrentMain
	run.Register(&run.Prop{
		ID: "C06", Level: "exploration",
		Rule: func(tier string) string {
			return "case = one hostile byte stream (<=1 MiB) read to its end with Parser.Next() over a scripted reader, in a child process under RLIMIT_AS=4GiB: every length/count prefix of 10 base streams replaced by each of 22 boundary digit strings; bomb headers at top level, inside a command and nested; truncation at every offset (whole and 1-byte delivery); every single byte; every string <=3 over the structural alphabet; nesting to 262000 levels; 200000-wide arrays; sequences of short bulk strings whose payloads add up to a power of two (4 KiB..64 KiB) minus 0..6 bytes followed by a bulk of 1..6 bytes; then seeded random stacked mutations of valid streams and a near-valid grammar; 6 (thorough: 120) fresh processes in which 16 goroutines, released together 256 times, each run their own parser over every possible first byte and over generated hostile streams (a runtime fatal error - concurrent map access in something the parsers share - cannot be recovered: the process must end with status 0); finally Go's native coverage-guided fuzzer (go test -fuzz, corpus seeded with 14 streams, budget counted in executions: 300000 quick / 30000000 thorough) with the same oracle. Oracle: no panic (recover), no process death (exit status), no array with absent elements, termination. distinct = hash of stream+chunking; non-trivial = the stream is not a single valid value"
		},
		Assumptions: []string{"'never aborts the process' is decided for inputs <=1 MiB under a 4 GiB address-space limit"},
		Setup: func(tier string, seed uint64) int {
			c06.seed, c06.tier = seed, tier
			c06.exh = gen.Exhaustive()
			c06.fixed = c06fixed()
			c06.nRand = map[string]int{"quick": 60000, "thorough": 10000000}[tier]
			return len(c06.fixed) + c06.nRand + map[string]int{"quick": 6, "thorough": 120}[tier]
		},
		Run: c06run,
		Describe: func(idx int) any {
			if idx >= len(c06.fixed)+c06.nRand {
				return map[string]any{"class": "concurrent-parsers"}
			}
			c := c06get(idx)
			return map[string]any{"class": c.Class, "stream_hex": hexClip(c.Stream, 200), "len": len(c.Stream), "chunk": c.Chunk}
		},
		Chunk:         1000,
		MinConclusive: 1000,
		ASLimit:       4 << 30,
		Finish:        c06fuzz,
	})
}

// c06fuzz is the coverage-guided leg: Go's native fuzzer over Parser.Next() with the same oracle,
// under an execution-count budget (not a duration). A crasher is moved out of the source tree and
// becomes the replay witness.
func c06fuzz(a *run.Agg) {
	execs := map[string]string{"quick": "300000x", "thorough": "30000000x"}[a.Tier]
	cmd := exec.Command("go", "test", "-tags", "verif", "-run=^$", "-fuzz=FuzzParser", "-fuzztime="+execs, "./fuzz/")
	cmd.Dir = filepath.Join(run.Root, "harness")
	cmd.Env = append(os.Environ(), "GOFLAGS=-mod=mod", "GOPROXY=off", "GOSUMDB=off", "GOTOOLCHAIN=local")
	out, err := cmd.CombinedOutput()
	text := string(out)
	a.Extra["fuzz_budget_execs"] = execs
	if m := regexp.MustCompile(`execs: (\d+)`).FindAllStringSubmatch(text, -1); len(m) > 0 {
		a.Extra["fuzz_execs"] = m[len(m)-1][1]
	}
	if m := regexp.MustCompile(`new interesting: (\d+) \(total: (\d+)\)`).FindAllStringSubmatch(text, -1); len(m) > 0 {
		a.Extra["fuzz_new_interesting_inputs"] = m[len(m)-1][1]
		a.Extra["fuzz_corpus_total"] = m[len(m)-1][2]
	}
	if err == nil {
		return
	}
	if !strings.Contains(text, "--- FAIL") && !strings.Contains(text, "Failing input") {
		a.Extra["self_check_failed"] = "the native fuzzer could not run: " + clipS(text, 400)
		return
	}
	// move crashers out of the source tree
	witness := ""
	dir := filepath.Join(run.Root, "harness", "fuzz", "testdata", "fuzz", "FuzzParser")
	if es, e := os.ReadDir(dir); e == nil {
		keep := filepath.Join(run.WorkDir("C06"), "fuzz-crashers")
		os.MkdirAll(keep, 0o755)
		for _, f := range es {
			b, _ := os.ReadFile(filepath.Join(dir, f.Name()))
			witness = string(b)
			os.Rename(filepath.Join(dir, f.Name()), filepath.Join(keep, f.Name()))
		}
		os.RemoveAll(filepath.Join(run.Root, "harness", "fuzz", "testdata"))
	}
	why := "fuzz target failed"
	for _, l := range strings.Split(text, "\n") {
		l = strings.TrimSpace(l)
		if strings.HasPrefix(l, "panic:") || strings.Contains(l, "absent element") || strings.Contains(l, "does not terminate") || strings.HasPrefix(l, "fatal error:") {
			why = l
			break
		}
	}
	a.AddViolation(-1, run.Violation{Sig: "C06:fuzz:" + strings.SplitN(why, "[", 2)[0], Clause: "Parser.Next() is total (coverage-guided fuzzing)", Detail: clipS(text, 3000), Case: map[string]any{"go_fuzz_corpus_entry": witness}})
}
