package main

import (
	"fmt"
	"strings"

	"github.com/cybergarage/go-redis/redis/proto"
	"verif/gen"
	"verif/resp"
	"verif/rng"
	"verif/run"
	"verif/sconn"
)

var c02 struct {
	exh  []resp.Value
	seed uint64
	tier string
}

// c02seq: a sequence of 1..6 values followed by a sentinel integer.
func c02seq(idx int) []resp.Value {
	r := rng.New(c02.seed, rng.Str("C02"), uint64(idx))
	n := 1 + r.Intn(6)
	var vs []resp.Value
	for i := 0; i < n; i++ {
		switch r.Intn(4) {
		case 0:
			vs = append(vs, rng.Pick(r, c02.exh))
		case 1:
			// command-like arrays of bulks
			k := 1 + r.Intn(5)
			a := resp.Value{K: '*', A: []resp.Value{}}
			for j := 0; j < k; j++ {
				a.A = append(a.A, resp.Bulk(gen.BulkPayload(r, 64)))
			}
			vs = append(vs, a)
		default:
			max := 300
			if r.Chance(1, 6) {
				max = 4096
			}
			vs = append(vs, gen.Tree(r, gen.Opt{MaxBulk: max, MaxArity: 6, MaxDepth: 3}, 0))
		}
	}
	// every 10th sequence is long and made of tiny values, many of them empty arrays (alone and as elements),
	// followed by properly nested ones: state a parser keeps from value to value accumulates here
	if idx%10 == 7 {
		m := 130 + r.Intn(300)
		for i := 0; i < m; i++ {
			switch r.Intn(5) {
			case 0, 1:
				vs = append(vs, resp.Array())
			case 2:
				vs = append(vs, resp.Array(resp.Array(), resp.Array(), resp.Int(int64(i))))
			case 3:
				vs = append(vs, resp.Array(resp.Array(resp.Array(resp.BulkS("x")))))
			default:
				vs = append(vs, resp.Status("s"))
			}
		}
		wide := resp.Array()
		for i := 0; i < 129+r.Intn(40); i++ {
			wide.A = append(wide.A, resp.Array())
		}
		wide.A = append(wide.A, resp.Array(resp.Array(resp.BulkS("deep"))))
		vs = append(vs, wide, resp.Array(resp.Array(resp.Array(resp.Int(1)))))
	}
	// every 10th sequence carries an array with more elements than the array reader's initial capacity (1024)
	if idx%10 == 5 {
		cnt := rng.Pick(r, []int{1024, 1025, 1300, 2048, 2049, 3000})
		wide := resp.Value{K: '*', A: make([]resp.Value, 0, cnt)}
		for i := 0; i < cnt; i++ {
			if i%7 == 3 {
				wide.A = append(wide.A, resp.Int(int64(i)))
			} else {
				wide.A = append(wide.A, resp.BulkS(fmt.Sprint("e", i)))
			}
		}
		at := r.Intn(len(vs) + 1)
		vs = append(vs[:at:at], append([]resp.Value{wide}, vs[at:]...)...)
	}
	// every 10th sequence carries one large bulk (around the 64 KiB mark and beyond) in the middle, so that
	// buffer-growth and read-ahead paths are exercised with data of the following value already available
	if idx%10 == 3 {
		size := rng.Pick(r, []int{65533, 65534, 65535, 65536, 65537, 65538, 70000, 131071, 131072, 131073, 200000, 262144})
		big := resp.Bulk(r.Bytes(size))
		if r.Bool() {
			big = resp.CmdB([]byte("SET"), []byte("k"), r.Bytes(size))
		}
		at := r.Intn(len(vs) + 1)
		vs = append(vs[:at:at], append([]resp.Value{big}, vs[at:]...)...)
		vs = append(vs, resp.Cmd("GET", "after-the-large-value"))
		// in half of them one or two further large bulks of OTHER sizes follow later in the sequence (larger and
		// smaller than the first, in any order): whatever a parser keeps from one large value to the next
		// (a grown buffer, a remembered size) meets a value it does not fit
		if r.Bool() {
			for k := 0; k < 1+r.Intn(2); k++ {
				size2 := rng.Pick(r, []int{65537, 66000, 70000, 100000, 131072, 150000, 200000, 262144, 300000})
				vs = append(vs, resp.Bulk(r.Bytes(size2)), resp.Cmd("GET", fmt.Sprint("after-large-value-", k+2)))
			}
		}
	}
	vs = append(vs, resp.Int(int64(idx)))
	// what the stream ends in decides which read meets the end of stream: a line, a bulk payload, or a command
	switch idx % 3 {
	case 1:
		vs = append(vs, resp.Cmd("ECHO", fmt.Sprint("last-", idx)))
	case 2:
		vs = append(vs, resp.Bulk(gen.BulkPayload(r, 40)))
	}
	// ... or an array whose last element is a line, a null bulk or an empty array, or an empty array itself: the very
	// last CRLF of the stream is then read inside an array
	switch idx % 7 {
	case 3:
		vs = append(vs, resp.Array(resp.BulkS("x"), resp.Int(int64(idx))))
	case 4:
		vs = append(vs, resp.Array(resp.Status("s"), resp.Array(resp.BulkS("y"), resp.NullBulk())))
	case 5:
		vs = append(vs, resp.Array(resp.Array(), resp.Array()))
	case 6:
		vs = append(vs, resp.Array())
	}
	return vs
}

// tokenBoundaries returns for each offset of the stream a class:
// 'P' inside a length/count prefix, 'C' between CR and LF, 'B' inside a bulk
// payload, 'L' inside a line payload, 'T' at a token start.
func offsetClasses(stream []byte) []byte {
	cls := make([]byte, len(stream)+1)
	for i := range cls {
		cls[i] = '?'
	}
	var walk func(off int) int
	walk = func(off int) int {
		cls[off] = 'T'
		k := stream[off]
		i := off + 1
		for stream[i] != '\r' {
			if k == '$' || k == '*' {
				cls[i] = 'P'
			} else {
				cls[i] = 'L'
			}
			i++
		}
		if k == '$' || k == '*' {
			cls[i] = 'P' // split right before CR of a prefix: prefix digits on one side
		} else {
			cls[i] = 'L'
		}
		cls[i+1] = 'C'
		next := i + 2
		line := string(stream[off+1 : i])
		switch k {
		case '$':
			n := 0
			fmt.Sscanf(line, "%d", &n)
			if n < 0 {
				return next
			}
			for j := 0; j < n; j++ {
				cls[next+j] = 'B'
			}
			if n > 0 {
				cls[next] = 'b' // boundary between header and payload
			}
			cls[next+n] = 'E' // between payload and its CRLF
			cls[next+n+1] = 'C'
			return next + n + 2
		case '*':
			n := 0
			fmt.Sscanf(line, "%d", &n)
			for j := 0; j < n; j++ {
				next = walk(next)
			}
			return next
		}
		return next
	}
	off := 0
	for off < len(stream) {
		off = walk(off)
	}
	return cls
}

func chunkAt(stream []byte, cuts []int) [][]byte {
	var out [][]byte
	prev := 0
	for _, c := range cuts {
		if c <= prev || c >= len(stream) {
			continue
		}
		out = append(out, stream[prev:c])
		prev = c
	}
	out = append(out, stream[prev:])
	return out
}

func fixedChunks(stream []byte, size, phase int) [][]byte {
	var out [][]byte
	i := 0
	if phase > 0 && phase < len(stream) {
		out = append(out, stream[:phase])
		i = phase
	}
	for i < len(stream) {
		j := i + size
		if j > len(stream) {
			j = len(stream)
		}
		out = append(out, stream[i:j])
		i = j
	}
	return out
}

func randomCuts(r *rng.R, n int, k int) []int {
	m := map[int]bool{}
	for len(m) < k && len(m) < n-1 {
		m[1+r.Intn(n-1)] = true
	}
	cuts := make([]int, 0, len(m))
	for c := range m {
		cuts = append(cuts, c)
	}
	// insertion sort
	for i := 1; i < len(cuts); i++ {
		for j := i; j > 0 && cuts[j] < cuts[j-1]; j-- {
			cuts[j], cuts[j-1] = cuts[j-1], cuts[j]
		}
	}
	return cuts
}

// parseAll reads values until end of stream through a scripted reader.
func c02parse(chunks [][]byte, want []resp.Value, eofWithData bool, emptyReads ...bool) (clause, detail string, readHash uint64) {
	c := sconn.New(sconn.Script{Chunks: chunks, End: sconn.EOF, EOFWithData: eofWithData, EmptyReads: len(emptyReads) > 0 && emptyReads[0]})
	p := proto.NewParserWithReader(c)
	for i, w := range want {
		m, err := p.Next()
		if err != nil {
			return "every value of the sequence is returned", fmt.Sprintf("value %d: error %v", i, err), 0
		}
		if m == nil {
			return "every value of the sequence is returned", fmt.Sprintf("value %d: premature end of stream", i), 0
		}
		got, absent, err := walkProto(m)
		if err != nil || absent {
			return "returned values are complete", fmt.Sprintf("value %d: absent=%v err=%v", i, absent, err), 0
		}
		if !resp.Equal(got, w) {
			return "values are returned unchanged and in order", fmt.Sprintf("value %d: got %s want %s", i, clipS(got.String(), 200), clipS(w.String(), 200)), 0
		}
	}
	m, err := p.Next()
	if m != nil || err != nil {
		return "after the last value the parser reports end of stream", fmt.Sprintf("Next() = %v, %v", m, err), 0
	}
	return "", "", c.Snapshot().ReadHash
}

func c02run(idx int) run.Result {
	var res run.Result
	res.Idx = idx
	vs := c02seq(idx)
	stream := resp.EncodeAll(vs...)
	cls := offsetClasses(stream)
	r := rng.New(c02.seed, rng.Str("C02sched"), uint64(idx))
	shash := gen.Hash64(stream)
	res.Key = shash
	type sched struct {
		name   string
		chunks [][]byte
		class  string
	}
	var scheds []sched
	scheds = append(scheds, sched{"whole", [][]byte{stream}, ""})
	large := len(stream) > 20000
	if large {
		for _, sz := range []int{65536, 65535, 32768, 4096, 1000} {
			scheds = append(scheds, sched{fmt.Sprintf("%d-byte/0", sz), fixedChunks(stream, sz, 0), "all"})
			scheds = append(scheds, sched{fmt.Sprintf("%d-byte/1", sz), fixedChunks(stream, sz, 1+r.Intn(sz)), "all"})
		}
		scheds = append(scheds, sched{"1-byte", fixedChunks(stream, 1, 0), "all"})
	} else {
		scheds = append(scheds, sched{"1-byte", fixedChunks(stream, 1, 0), "all"})
		scheds = append(scheds, sched{"2-byte/0", fixedChunks(stream, 2, 0), "all"})
		scheds = append(scheds, sched{"2-byte/1", fixedChunks(stream, 2, 1), "all"})
		scheds = append(scheds, sched{"3-byte", fixedChunks(stream, 3, 0), "all"})
	}
	// every 2-way split point (all of them for short streams; for long ones all
	// structural offsets plus a sample of payload offsets)
	for o := 1; o < len(stream); o++ {
		if len(stream) > 400 && (cls[o] == 'B' || cls[o] == 'L') && !r.Chance(1, 1+len(stream)/200) {
			continue
		}
		if large && (cls[o] == 'B' || cls[o] == 'L') && !r.Chance(1, 40) {
			continue
		}
		if len(vs) > 100 && !r.Chance(1, 30) {
			continue // long sequences of tiny values: a sample of the split points
		}
		if idx%10 == 5 && !r.Chance(300, len(stream)) {
			continue // many small elements: about 300 of the split points
		}
		scheds = append(scheds, sched{fmt.Sprintf("split@%d", o), chunkAt(stream, []int{o}), string(cls[o])})
	}
	nRandom := 32
	if large {
		nRandom = 12
	}
	for k := 0; k < nRandom; k++ {
		cuts := randomCuts(r, len(stream), 2+r.Intn(12))
		scheds = append(scheds, sched{fmt.Sprintf("random%v", cuts), chunkAt(stream, cuts), "k-way"})
	}
	// the same partitions once more with the last byte and the end of stream reported by ONE read
	for _, s := range scheds[:min(len(scheds), 6)] {
		scheds = append(scheds, sched{s.name + "+eof-with-last-read", s.chunks, s.class})
	}
	if len(stream) > 2 {
		o := 1 + r.Intn(len(stream)-1)
		scheds = append(scheds, sched{fmt.Sprintf("split@%d+eof-with-last-read", o), chunkAt(stream, []int{o}), string(cls[o])})
	}
	// and a sample of the partitions with a read that returns (0, nil) - nothing happened, not the end of the
	// stream - between every two chunks
	for k, n := 0, len(scheds); k < 12 && n > 1; k++ {
		s := scheds[1+r.Intn(n-1)]
		if !strings.Contains(s.name, "+") && len(s.chunks) <= 4096 {
			scheds = append(scheds, sched{s.name + "+empty-reads", s.chunks, s.class})
		}
	}
	for _, s := range scheds {
		clause, detail, rh := c02parse(s.chunks, vs, strings.HasSuffix(s.name, "+eof-with-last-read"), strings.HasSuffix(s.name, "+empty-reads"))
		res.Count("schedules", 1)
		if s.class != "" {
			res.Count("split:"+splitName(s.class), 1)
		}
		if clause != "" {
			sizes := make([]int, 0, len(s.chunks))
			for _, c := range s.chunks {
				sizes = append(sizes, len(c))
			}
			if len(sizes) > 64 {
				sizes = sizes[:64]
			}
			res.Violate("C02:"+clause+":"+splitName(s.class), clause, detail+" schedule="+s.name,
				map[string]any{"stream_hex": hexClip(stream, 600), "values": len(vs), "schedule": s.name, "chunk_sizes": sizes})
			break
		}
		if s.name != "whole" {
			res.Keys = append(res.Keys, shash^rh)
		}
	}
	res.NonTrivial = false // distinctness is counted per (sequence, served read-size sequence) in Keys
	if idx%211 == 0 {
		res.Sample = map[string]any{"stream_hex": hexClip(stream, 200), "values": len(vs), "schedules": len(scheds)}
	}
	return res
}

func splitName(c string) string {
	switch c {
	case "P":
		return "inside-length-prefix"
	case "C":
		return "between-CR-and-LF"
	case "B":
		return "inside-bulk-payload"
	case "b":
		return "between-header-and-payload"
	case "E":
		return "between-payload-and-CRLF"
	case "L":
		return "inside-line-payload"
	case "T":
		return "at-token-boundary"
	case "all":
		return "fixed-size-delivery"
	case "k-way":
		return "random-k-way"
	case "":
		return "whole"
	}
	return c
}

func init() {
	run.Register(&run.Prop{
		ID: "C02", Level: "exploration",
		Rule: func(tier string) string {
			return "case = one sequence of 1..6 generated values plus a sentinel integer, ending in that integer, in a command array, in a bulk string, or inside an array (a line element, a null bulk, an empty array last) (every tenth sequence carries a bulk around 64 KiB, every tenth an array of 1024..3000 elements, every tenth is 130..430 tiny values - empty arrays alone and as elements, small nested arrays - ending in an array of >= 129 empty arrays and a nested one), parsed through proto.NewParserWithReader over a scripted reader under: whole delivery, 1-byte, 2-byte at both parities, 3-byte, every 2-way split point (all offsets for streams <=400 bytes; all structural offsets and a sample of payload offsets beyond) and 32 random k-way partitions, and seven of these partitions once more with the last byte and the end of stream reported by one and the same read (n>0 together with io.EOF), and up to twelve once more with a read that returns (0, nil) - nothing happened - between every two chunks (half of the large-bulk sequences carry one or two further large bulks of other sizes); verdict = exactly those values in order, then (nil,nil). distinct_nontrivial counts distinct (sequence, served read-size sequence) pairs other than whole delivery; counters split:* classify where the split fell"
		},
		Assumptions: []string{"only (n>0,nil) and (0,err) read results are produced, as a net.Conn does", "independent codec resp is correct"},
		Setup: func(tier string, seed uint64) int {
			c02.exh = gen.Exhaustive()
			c02.seed, c02.tier = seed, tier
			return map[string]int{"quick": 5000, "thorough": 150000}[tier]
		},
		Run:           c02run,
		Describe:      func(idx int) any { return map[string]any{"stream_hex": hexClip(resp.EncodeAll(c02seq(idx)...), 400)} },
		Chunk:         50,
		MinConclusive: 500,
	})
}
