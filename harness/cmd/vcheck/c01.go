package main

import (
	"bytes"
	"fmt"
	"math"
	"strconv"

	"github.com/cybergarage/go-redis/redis"
	"github.com/cybergarage/go-redis/redis/proto"
	"verif/gen"
	"verif/resp"
	"verif/rng"
	"verif/run"
)

// ---- bridging between resp.Value trees and proto.Message through the public API only ----

var protoType = map[byte]proto.MessageType{'+': proto.StringMessage, '-': proto.ErrorMessage, ':': proto.IntegerMessage, '$': proto.BulkMessage, '*': proto.ArrayMessage}

func buildProto(v resp.Value) *proto.Message {
	m := proto.NewMessageWithType(protoType[v.K])
	switch v.K {
	case '*':
		m.SetArray(proto.NewArray())
		for _, e := range v.A {
			m.Append(buildProto(e))
		}
	case '$':
		if v.Null {
			m.SetBytes(nil)
		} else {
			m.SetBytes(append([]byte{}, v.B...))
		}
	default:
		m.SetBytes(append([]byte{}, v.B...))
	}
	return m
}

// walkProto converts a parsed message into a value tree using only public
// accessors. absent reports an array whose Next() ran dry before Size().
func walkProto(m *proto.Message) (v resp.Value, absent bool, err error) {
	switch m.Type {
	case proto.StringMessage:
		v.K = '+'
	case proto.ErrorMessage:
		v.K = '-'
	case proto.IntegerMessage:
		v.K = ':'
	case proto.BulkMessage:
		v.K = '$'
	case proto.ArrayMessage:
		v.K = '*'
	default:
		return v, false, fmt.Errorf("unknown message type %d", m.Type)
	}
	if v.K == '*' {
		arr, err := m.Array()
		if err != nil {
			return v, false, err
		}
		if arr == nil {
			return v, true, nil
		}
		v.A = []resp.Value{}
		n := arr.Size()
		for i := 0; i < n; i++ {
			e, err := arr.Next()
			if err != nil {
				return v, false, err
			}
			if e == nil {
				return v, true, nil
			}
			ev, ab, err := walkProto(e)
			if err != nil || ab {
				return v, ab, err
			}
			v.A = append(v.A, ev)
		}
		return v, false, nil
	}
	if v.K == '$' && m.IsNil() {
		v.Null = true
		return v, false, nil
	}
	b, err := m.Bytes()
	if err != nil {
		return v, false, err
	}
	v.B = append([]byte{}, b...)
	return v, false, nil
}

type c01case struct {
	kind string // tree | int | float | ctor
	v    resp.Value
	i    int64
	f    float64
	s    []byte
	strs []string
}

var c01 struct {
	exh  []resp.Value
	n    int
	seed uint64
	tier string
}

func c01get(idx int) c01case {
	if idx < len(c01.exh) {
		return c01case{kind: "tree", v: c01.exh[idx]}
	}
	r := rng.New(c01.seed, rng.Str("C01"), uint64(idx))
	switch r.Intn(10) {
	case 0:
		var i int64
		switch r.Intn(3) {
		case 0:
			i = rng.Pick(r, gen.BoundaryInts)
		case 1:
			i = int64(1)<<uint(r.Intn(63)) + int64(r.Intn(3)-1)
			if r.Bool() {
				i = -i
			}
		default:
			i = int64(r.U64())
		}
		return c01case{kind: "int", i: i}
	case 1:
		var f float64
		switch r.Intn(4) {
		case 0:
			f = rng.Pick(r, []float64{0, math.Copysign(0, -1), 1, -1, 0.1, 1e308, math.MaxFloat64, -math.MaxFloat64, math.SmallestNonzeroFloat64, 5e-324, 2.2250738585072014e-308, 1e21, 1e-7, 123456789.125, math.Pi})
		case 1:
			// the limits of the integer types (where a conversion to an integer and back goes wrong) and of the
			// formats (where %f / %e / %g change their mind), each with its two neighbours, in both signs
			f = rng.Pick(r, []float64{1 << 24, 1 << 31, 1 << 32, 1 << 52, 1 << 53, 1 << 62, 1 << 63, 1 << 64, 1 << 127, 1 << 128, 1e15, 1e16, 1e17, 1e20, 1e21, 1e22, 1e-4, 1e-5, 1e-6, 1e6, 999999.5, 1e7})
			switch r.Intn(3) {
			case 1:
				f = math.Nextafter(f, math.Inf(1))
			case 2:
				f = math.Nextafter(f, 0)
			}
			if r.Bool() {
				f = -f
			}
		default:
			f = math.Float64frombits(r.U64())
			for math.IsNaN(f) || math.IsInf(f, 0) {
				f = math.Float64frombits(r.U64())
			}
		}
		return c01case{kind: "float", f: f}
	case 2:
		n := r.Intn(6)
		strs := make([]string, n)
		for i := range strs {
			strs[i] = string(gen.BulkPayload(r, 200))
		}
		return c01case{kind: "ctor", s: gen.BulkPayload(r, 2000), strs: strs}
	case 3:
		if r.Chance(1, 40) {
			// wide and shallow: many empty arrays (and nested empties) before a properly nested element
			w := resp.Array()
			for i, n := 0, 100+r.Intn(200); i < n; i++ {
				if r.Chance(1, 5) {
					w.A = append(w.A, resp.Array(resp.Array()))
				} else {
					w.A = append(w.A, resp.Array())
				}
			}
			w.A = append(w.A, resp.Array(resp.Array(resp.Bulk(gen.BulkPayload(r, 20)))), resp.Array())
			return c01case{kind: "tree", v: w}
		}
	}
	maxBulk := 65536
	return c01case{kind: "tree", v: gen.Tree(r, gen.Opt{MaxBulk: maxBulk, MaxArity: 40, MaxDepth: 6}, 0)}
}

func c01tree(res *run.Result, v resp.Value) {
	want := resp.Encode(v)
	res.Key = gen.Hash64(want)
	res.NonTrivial = gen.NonTrivial(v)
	desc := func() any { return map[string]any{"value": clipS(v.String(), 400), "encoded_hex": hexClip(want, 400)} }
	// (a) serialize through the public API == independent encoding
	got, err := buildProto(v).RESPBytes()
	if err != nil {
		res.Violate("C01a:err:"+kindPath(v), "RESPBytes() of a constructed value must succeed", err.Error(), desc())
		return
	}
	// the bytes belong to the caller: serializing other values afterwards (a scalar and an array, as a server
	// does for its next replies) must not change them
	proto.NewMessageWithType(proto.BulkMessage).SetBytes(bytes.Repeat([]byte{'#'}, len(want)+7)).RESPBytes()
	buildProto(resp.Array(resp.Bulk(bytes.Repeat([]byte{'%'}, len(want)+3)), resp.Int(7))).RESPBytes()
	if !bytes.Equal(got, want) {
		res.Violate("C01a:"+kindPath(v)+":"+diffClass(got, want), "RESPBytes() == independent canonical encoding (length prefix == payload length), still so after other values were serialized", fmt.Sprintf("got %s want %s", hexClip(got, 200), hexClip(want, 200)), desc())
		return
	}
	// (b) parse the canonical encoding and walk it through the public accessors
	p := proto.NewParserWithBytes(want)
	m, err := p.Next()
	if err != nil || m == nil {
		res.Violate("C01b:parse:"+kindPath(v), "parsing a canonical encoding yields a value", fmt.Sprintf("msg=%v err=%v", m, err), desc())
		return
	}
	back, absent, err := walkProto(m)
	if err != nil || absent {
		res.Violate("C01b:walk:"+kindPath(v), "a parsed value can be walked completely", fmt.Sprintf("absent=%v err=%v", absent, err), desc())
		return
	}
	if !resp.Equal(back, v) {
		res.Violate("C01b:"+kindPath(v)+":"+valueDiff(back, v), "parse(encode(v)) == v in type, payload, null-ness and structure", fmt.Sprintf("got %s want %s", clipS(back.String(), 300), clipS(v.String(), 300)), desc())
		return
	}
	// nothing may be left over, and the stream must end cleanly
	if m2, err := p.Next(); m2 != nil || err != nil {
		res.Violate("C01b:leftover:"+kindPath(v), "after the value the stream ends cleanly", fmt.Sprintf("second Next() = %v, %v", m2, err), desc())
		return
	}
	// (c) re-serializing the parsed value reproduces the input bytes
	again, err := m.RESPBytes()
	if err != nil || !bytes.Equal(again, want) {
		res.Violate("C01c:"+kindPath(v), "re-serializing a parsed canonical value reproduces the input bytes", fmt.Sprintf("err=%v got %s want %s", err, hexClip(again, 200), hexClip(want, 200)), desc())
	}
	// (d) a value tree is a live object: serialized, then changed below the top (an element appended to a nested
	// array, the payload of an element replaced), then serialized again, it encodes what it holds NOW
	if v.K == '*' && len(v.A) > 0 && len(res.Violations) == 0 {
		top := proto.NewMessageWithType(proto.ArrayMessage)
		top.SetArray(proto.NewArray())
		kids := make([]*proto.Message, len(v.A))
		for i, e := range v.A {
			kids[i] = buildProto(e)
			top.Append(kids[i])
		}
		if first, err := top.RESPBytes(); err != nil || !bytes.Equal(first, want) {
			res.Violate("C01a:rebuilt:"+kindPath(v), "RESPBytes() == independent canonical encoding", fmt.Sprintf("err=%v got %s want %s", err, hexClip(first, 200), hexClip(want, 200)), desc())
			return
		}
		v2 := resp.Value{K: '*', A: append([]resp.Value{}, v.A...)}
		at := int(res.Key % uint64(len(v.A)))
		switch e := v.A[at]; {
		case e.K == '*' && !e.Null:
			kids[at].Append(buildProto(resp.BulkS("grown")))
			v2.A[at] = resp.Value{K: '*', A: append(append([]resp.Value{}, e.A...), resp.BulkS("grown"))}
		case e.K == ':':
			kids[at].SetBytes([]byte("-42"))
			v2.A[at] = resp.Value{K: ':', B: []byte("-42")}
		default:
			kids[at].SetBytes([]byte("changed"))
			v2.A[at] = resp.Value{K: e.K, B: []byte("changed")}
		}
		want2 := resp.Encode(v2)
		if second, err := top.RESPBytes(); err != nil || !bytes.Equal(second, want2) {
			res.Violate("C01a:after-change:"+kindPath(v), "serializing a value yields the value it holds (also after it was serialized once and then changed below the top)", fmt.Sprintf("element %d changed after the first serialization; err=%v got %s want %s", at, err, hexClip(second, 200), hexClip(want2, 200)), desc())
			return
		}
	}
	if res.Idx%997 == 0 {
		res.Sample = desc()
	}
}

func decodeOne(m *redis.Message) (resp.Value, string) {
	b, err := m.RESPBytes()
	if err != nil {
		return resp.Value{}, "RESPBytes error: " + err.Error()
	}
	v, n, st, why := resp.Decode(b)
	if st != resp.Complete || n != len(b) {
		return resp.Value{}, fmt.Sprintf("encoding %s is not one strict RESP value (%v %s)", hexClip(b, 120), st, why)
	}
	return v, ""
}

func c01run(idx int) run.Result {
	var res run.Result
	res.Idx = idx
	c := c01get(idx)
	switch c.kind {
	case "tree":
		res.Classes = []string{"tree"}
		c01tree(&res, c.v)
	case "int":
		res.Classes = []string{"ctor-int"}
		res.Key = uint64(c.i) ^ 0x1111
		res.NonTrivial = c.i < 0 || c.i > math.MaxInt32
		v, bad := decodeOne(redis.NewIntegerMessage(int(c.i)))
		if bad != "" {
			res.Violate("C01d:int:frame", "NewIntegerMessage encodes to one strict value", bad, c.i)
		} else if n, err := strconv.ParseInt(string(v.B), 10, 64); v.K != ':' || err != nil || n != c.i {
			res.Violate("C01d:int:value", "NewIntegerMessage(i) decodes to i", fmt.Sprintf("i=%d decoded %s", c.i, v), c.i)
		} else {
			// and through the library's own decoding: parse the bytes and read the integer back (as a reply, and
			// as a bulk-string argument of a request, the way command arguments are read)
			enc, _ := redis.NewIntegerMessage(int(c.i)).RESPBytes()
			if m, err := proto.NewParserWithBytes(enc).Next(); err != nil || m == nil {
				res.Violate("C01d:int:parse", "NewIntegerMessage(i) decodes to i", fmt.Sprintf("i=%d: parse of %q: %v", c.i, enc, err), c.i)
			} else if n, err := m.Integer(); err != nil || int64(n) != c.i {
				res.Violate("C01d:int:accessor", "NewIntegerMessage(i) decodes to i", fmt.Sprintf("i=%d: Message.Integer() = %d, %v", c.i, n, err), c.i)
			} else if a, err := proto.NewParserWithBytes(resp.Encode(resp.Cmd("X", strconv.FormatInt(c.i, 10)))).Next(); err != nil || a == nil {
				res.Violate("C01d:int:parse", "NewIntegerMessage(i) decodes to i", fmt.Sprintf("i=%d as an argument: %v", c.i, err), c.i)
			} else if arr, err := a.Array(); err != nil {
				res.Violate("C01d:int:parse", "NewIntegerMessage(i) decodes to i", fmt.Sprintf("i=%d as an argument: %v", c.i, err), c.i)
			} else {
				arr.Next()
				if n, err := arr.NextInteger(); err != nil || int64(n) != c.i {
					res.Violate("C01d:int:argument", "an integer argument decodes to the integer it spells", fmt.Sprintf("i=%d: Array.NextInteger() = %d, %v", c.i, n, err), c.i)
				}
			}
		}
	case "float":
		res.Classes = []string{"ctor-float"}
		res.Key = math.Float64bits(c.f) ^ 0x2222
		res.NonTrivial = true
		v, bad := decodeOne(redis.NewFloatMessage(c.f))
		if bad != "" {
			res.Violate("C01d:float:frame", "NewFloatMessage encodes to one strict value", bad, c.f)
		} else if g, err := strconv.ParseFloat(string(v.B), 64); err != nil || math.Float64bits(g) != math.Float64bits(c.f) || v.K != '$' || v.Null {
			res.Violate("C01d:float:value", "NewFloatMessage(f) decodes to the same float64 bits", fmt.Sprintf("f=%v (%016x) decoded %s err=%v", c.f, math.Float64bits(c.f), v, err), c.f)
		}
	case "ctor":
		res.Classes = []string{"ctor-string"}
		res.Key = gen.Hash64(c.s) ^ 0x3333
		res.NonTrivial = true
		if v, bad := decodeOne(redis.NewBulkMessage(string(c.s))); bad != "" || !resp.Equal(v, resp.Bulk(c.s)) {
			res.Violate("C01d:bulk", "NewBulkMessage(s) decodes to bulk s", fmt.Sprintf("%s got %s", bad, v), hexClip(c.s, 200))
		}
		line := bytes.ReplaceAll(bytes.ReplaceAll(c.s, []byte("\r"), []byte("_")), []byte("\n"), []byte("_"))
		if v, bad := decodeOne(redis.NewStringMessage(string(line))); bad != "" || !resp.Equal(v, resp.Value{K: '+', B: line}) {
			res.Violate("C01d:status", "NewStringMessage(s) decodes to status s", fmt.Sprintf("%s got %s", bad, v), hexClip(line, 200))
		}
		if v, bad := decodeOne(redis.NewErrorMessage(fmt.Errorf("%s", line))); bad != "" || !resp.Equal(v, resp.Value{K: '-', B: line}) {
			res.Violate("C01d:error", "NewErrorMessage(e) decodes to error e", fmt.Sprintf("%s got %s", bad, v), hexClip(line, 200))
		}
		if v, bad := decodeOne(redis.NewOKMessage()); bad != "" || !resp.Equal(v, resp.Status("OK")) {
			res.Violate("C01d:ok", "NewOKMessage decodes to +OK", fmt.Sprintf("%s got %s", bad, v), nil)
		}
		if v, bad := decodeOne(redis.NewNilMessage()); bad != "" || !resp.Equal(v, resp.NullBulk()) {
			res.Violate("C01d:nil", "NewNilMessage decodes to the null bulk", fmt.Sprintf("%s got %s", bad, v), nil)
		}
		want := resp.Value{K: '*', A: []resp.Value{}}
		for _, s := range c.strs {
			want.A = append(want.A, resp.BulkS(s))
		}
		if v, bad := decodeOne(redis.NewStringArrayMessage(c.strs)); bad != "" || !resp.Equal(v, want) {
			res.Violate("C01d:strarray", "NewStringArrayMessage(strs) decodes to an array of those bulks", fmt.Sprintf("%s got %s", bad, clipS(v.String(), 200)), c.strs)
		}
		if v, bad := decodeOne(redis.NewArrayMessage()); bad != "" || !resp.Equal(v, resp.Array()) {
			res.Violate("C01d:emptyarray", "NewArrayMessage decodes to the empty array", fmt.Sprintf("%s got %s", bad, v), nil)
		}
	}
	return res
}

func init() {
	run.Register(&run.Prop{
		ID: "C01", Level: "exploration",
		Rule: func(tier string) string {
			return "case = one RESP2 value tree (or constructor argument): bounded-exhaustive set (all status/error payloads <=3 over {a,NUL,$,*,+,-,:,0,1,0xff}, all bulk payloads <=3 over that alphabet plus CR and LF, null bulk, 28 boundary integers, arrays of arity<=3/depth<=3 over representative scalars) followed by seeded random trees (bulk <=64KiB over all byte values, arity<=40, depth<=6) and random int/float/string constructor arguments; each tree is judged by four equalities against an independent strict codec (arrays also after an element below the top was changed between two serializations); distinct = hash of the canonical encoding; non-trivial = contains CR, LF, NUL, a type byte at payload start, an empty/null bulk, nesting>=2, or is a boundary constructor argument"
		},
		Assumptions: []string{"the independent RESP2 codec in /verif/harness/resp is correct (it has its own unit tests)", "null arrays (*-1) are outside the statement's value list and are not generated"},
		Setup: func(tier string, seed uint64) int {
			c01.exh = gen.Exhaustive()
			c01.seed, c01.tier = seed, tier
			c01.n = len(c01.exh) + map[string]int{"quick": 40000, "thorough": 6000000}[tier]
			return c01.n
		},
		Run: c01run,
		Describe: func(idx int) any {
			c := c01get(idx)
			return map[string]any{"kind": c.kind, "value": clipS(c.v.String(), 300), "i": c.i, "f": c.f}
		},
		Chunk:         2000,
		MinConclusive: 1000,
	})
}
