package main

import (
	"bufio"
	"bytes"
	"fmt"
	"io"
	"net"
	"os"
	"os/exec"
	"strconv"
	"strings"
	"sync"
	"sync/atomic"
	"syscall"
	"time"

	exsrv "github.com/cybergarage/go-redis/examples/go-redisd/server"
	"github.com/cybergarage/go-redis/redis"
	"verif/double"
	"verif/gen"
	"verif/grammar"
	"verif/resp"
	"verif/rng"
	"verif/run"
	"verif/sconn"
)

var c07 struct {
	seed     uint64
	tier     string
	nInproc  int
	nSession int
	perSess  int
}

var boundaryArgs = []string{"-9223372036854775808", "-2147483649", "-10", "-2", "-1", "0", "1", "2", "5", "10", "2147483648", "9223372036854775807"}
var boundaryFloats = []string{"-inf", "-1e308", "-1", "-0", "0", "1", "1.5", "1e308", "+inf", "(0", "(5", "(-inf"}

// sweepRequests: boundary-argument grids for index/count/limit arithmetic on
// populated keys s (string) l (list) h (hash) t (set) z (sorted set) and on a
// missing key n.
func sweepRequests() []resp.Value {
	var out []resp.Value
	add := func(a ...string) { out = append(out, resp.Cmd(a...)) }
	B := boundaryArgs
	for _, k := range []string{"s", "e", "n"} { // e = empty string value
		for _, a := range B {
			for _, b := range B {
				add("GETRANGE", k, a, b)
				add("SUBSTR", k, a, b)
			}
		}
	}
	for _, k := range []string{"l", "n"} {
		for _, a := range B {
			add("LINDEX", k, a)
			// pops are destructive: refill first so that every count meets a non-empty list
			if k == "l" {
				add("RPUSH", k, "x", "y", "z")
			}
			add("LPOP", k, a)
			if k == "l" {
				add("RPUSH", k, "x", "y", "z")
			}
			add("RPOP", k, a)
			for _, b := range B {
				add("LRANGE", k, a, b)
			}
		}
	}
	for _, k := range []string{"z", "n"} {
		for _, a := range B {
			for _, b := range B {
				add("ZRANGE", k, a, b)
				add("ZRANGE", k, a, b, "WITHSCORES")
				add("ZRANGE", k, a, b, "REV")
				add("ZREVRANGE", k, a, b)
				add("ZREVRANGE", k, a, b, "WITHSCORES")
			}
		}
		for _, mn := range boundaryFloats {
			for _, mx := range boundaryFloats {
				add("ZRANGEBYSCORE", k, mn, mx)
				add("ZREVRANGEBYSCORE", k, mx, mn, "WITHSCORES")
			}
		}
		for _, o := range B {
			for _, c := range B {
				add("ZRANGEBYSCORE", k, "-inf", "+inf", "LIMIT", o, c)
				add("ZRANGEBYSCORE", k, "0", "9", "WITHSCORES", "LIMIT", o, c)
				add("ZRANGE", k, "0", "9", "BYSCORE", "LIMIT", o, c)
				add("ZREVRANGEBYSCORE", k, "+inf", "-inf", "LIMIT", o, c)
			}
		}
	}
	for _, a := range B {
		add("INCRBY", "c", a)
		add("DECRBY", "c", a)
		add("INCRBY", "s", a)
		add("SELECT", a)
		add("EXPIRE", "s2", a)
		add("EXPIREAT", "s2", a)
		add("SETEX", "s3", a, "v")
		add("SET", "s3", "v", "EX", a)
		add("SET", "s3", "v", "PX", a)
		add("SET", "s3", "v", "PXAT", a)
		add("SCAN", a)
		add("SCAN", "0", "COUNT", a)
		add("ZINCRBY", "z", a, "m1")
		add("ZADD", "z2", a, "m")
	}
	for _, f := range append([]string{"nan", "1e999", "-1e999", "0x10", "1e-400"}, boundaryFloats...) {
		add("ZADD", "z2", f, "m")
		add("ZINCRBY", "z2", f, "m")
		add("ZADD", "z2", "INCR", f, "m")
	}
	for _, v := range []string{"", "\r\n", "9223372036854775807", "-9223372036854775808", "abc", "1.5", " 1", "+1", "0x10", "99999999999999999999"} {
		add("SET", "c2", v)
		add("INCR", "c2")
		add("DECR", "c2")
		add("INCRBY", "c2", "9223372036854775807")
		add("APPEND", "c2", v)
		add("STRLEN", "c2")
		add("GETRANGE", "c2", "0", "-1")
	}
	for _, k := range []string{"", "s", "l", "h", "t", "z", "n"} {
		for _, c := range []string{"GET", "STRLEN", "INCR", "APPEND", "HGETALL", "HKEYS", "HVALS", "HLEN", "LLEN", "LPOP", "RPOP", "SMEMBERS", "SCARD", "ZCARD", "TYPE", "TTL", "DEL", "EXISTS", "KEYS"} {
			if c == "APPEND" {
				add(c, k, "x")
			} else {
				add(c, k)
			}
		}
		add("LRANGE", k, "0", "-1")
		add("ZRANGE", k, "0", "-1")
		add("HGET", k, "f")
		add("HSET", k, "f", "v")
		add("LPUSH", k, "a")
		add("SADD", k, "a")
		add("ZADD", k, "1", "a")
		add("RENAME", k, k)
		add("RENAME", k, "other")
		add("RENAMENX", k, k)
		add("SISMEMBER", k, "a")
		add("ZSCORE", k, "a")
		add("MGET", k, k)
		add("MSETNX", k, "1", k, "2")
	}
	return out
}

func populateRequests() []resp.Value {
	return []resp.Value{
		resp.Cmd("SET", "s", "hello world"), resp.Cmd("SET", "e", ""), resp.Cmd("SET", "c", "10"),
		resp.Cmd("RPUSH", "l", "a", "b", "c", "d", "e"), resp.Cmd("HSET", "h", "f", "v"), resp.Cmd("HSET", "h", "g", "w"),
		resp.Cmd("SADD", "t", "x", "y", "z"), resp.Cmd("ZADD", "z", "1", "m1", "2", "m2", "3", "m3", "3", "m4", "5", "m5"),
	}
}

type c07case struct {
	Kind    string // sweep | pipeline | hostile-stream | handler-result | toplevel
	Handler string // example | rec
	Reqs    []resp.Value
	Stream  []byte
	Ending  sconn.Ending
	Mk      func() (*redis.Message, error)
	Script  string
}

var c07sweep []resp.Value

const sweepBatch = 60

func c07get(idx int) c07case {
	r := rng.New(c07.seed, rng.Str("C07"), uint64(idx))
	handler := []string{"example", "rec"}[idx%2]
	nSweep := (len(c07sweep) + sweepBatch - 1) / sweepBatch
	if idx < 2*nSweep {
		b := idx / 2
		hi := (b + 1) * sweepBatch
		if hi > len(c07sweep) {
			hi = len(c07sweep)
		}
		reqs := append(populateRequests(), c07sweep[b*sweepBatch:hi]...)
		reqs = append(reqs, resp.Cmd("ECHO", "sync"))
		return c07case{Kind: "sweep", Handler: handler, Reqs: reqs, Ending: sconn.EOF}
	}
	if idx < 2*nSweep+4 {
		// one request that pushes 40 000 elements onto a list (440 KB on the wire): the work for a request, done
		// inside the command lock, grows with its size and not with its square (the child watchdog calls 3 s of
		// CPU without a transport or handler event a spin)
		args := make([]string, 0, 40002)
		args = append(args, []string{"LPUSH", "RPUSH"}[(idx/2)%2], "wide-list")
		for k := 0; k < 40000; k++ {
			args = append(args, fmt.Sprint("e", k))
		}
		return c07case{Kind: "wide-request", Handler: handler, Reqs: []resp.Value{resp.Cmd(args...), resp.Cmd("LLEN", "wide-list"), resp.Cmd("LPOP", "wide-list"), resp.Cmd("ECHO", "sync")}, Ending: sconn.EOF}
	}
	ending := rng.Pick(r, []sconn.Ending{sconn.EOF, sconn.EOF, sconn.Reset})
	switch r.Intn(4) {
	case 0:
		pc := genPipe(r, idx, 8, idx, true)
		return c07case{Kind: "pipeline", Handler: handler, Reqs: pc.values(), Ending: ending}
	case 1:
		// hostile stream as in C06, after some valid traffic
		var s []byte
		if r.Bool() {
			s = resp.EncodeAll(populateRequests()...)
		}
		h := c06get(len(c06.fixed) + r.Intn(1<<30))
		if r.Chance(1, 3) && len(c06.fixed) > 0 {
			h = c06.fixed[r.Intn(len(c06.fixed))]
		}
		if len(h.Stream) > 70000 {
			h.Stream = h.Stream[:70000]
		}
		return c07case{Kind: "hostile-stream", Handler: handler, Stream: append(s, h.Stream...), Ending: ending}
	case 2:
		v := grammar.Generate(grammar.ByName[rng.Pick(r, []string{"GET", "MGET", "HMGET", "ZCARD", "HEXISTS", "HKEYS", "HVALS", "HLEN", "SCARD", "INCR", "APPEND", "GETRANGE", "ZREVRANGE", "ZREVRANGEBYSCORE", "STRLEN", "HSTRLEN", "SISMEMBER", "MSETNX", "SUBSTR", "DECRBY"})], r, "t")
		h := c04handlerResult(r)
		return c07case{Kind: "handler-result", Handler: "rec", Reqs: []resp.Value{v.Value(), v.Value(), resp.Cmd("ECHO", "sync")}, Mk: h.mk, Script: h.desc, Ending: ending}
	}
	n := 1 + r.Intn(5)
	c := c07case{Kind: "toplevel", Handler: handler, Ending: ending}
	for i := 0; i < n; i++ {
		c.Reqs = append(c.Reqs, c04toplevel(r, "t"))
	}
	return c
}

func c07server(c c07case) *redis.Server {
	if c.Handler == "example" {
		return exsrv.NewServer().Server
	}
	rec := double.NewRec()
	if c.Mk != nil {
		n := 0
		rec.Script = func(cl *double.Call) (*redis.Message, error, bool) {
			n++
			if n <= 2 {
				m, e := c.Mk()
				return m, e, true
			}
			return nil, nil, false
		}
	}
	return newServer(rec)
}

func c07inproc(idx int) run.Result {
	var res run.Result
	res.Idx = idx
	c := c07get(idx)
	stream := c.Stream
	var ends []int
	if stream == nil {
		stream, ends = encodeReqs(c.Reqs)
	}
	res.Key = gen.Hash64(stream) ^ gen.Hash64([]byte(c.Handler+c.Script))
	res.NonTrivial = true
	res.Classes = []string{"inproc:" + c.Kind + ":" + c.Handler}
	desc := func() any {
		return map[string]any{"kind": c.Kind, "handler": c.Handler, "script": c.Script, "ending": c.Ending.String(), "requests": reqStrings(c.Reqs), "stream_hex": hexClip(stream, 600)}
	}
	var chunks [][]byte
	if ends != nil {
		chunks = chunkAt(stream, ends)
	} else {
		chunks = [][]byte{stream}
	}
	srv := c07server(c)
	conn := sconn.New(sconn.Script{Chunks: chunks, End: c.Ending})
	sr := double.Serve(srv, conn, serveWait)
	res.Count("requests", int64(len(c.Reqs)))
	if sr.TimedOut {
		res.Inconclusive = "watchdog: serve did not return"
		return res
	}
	if sr.Panic != "" {
		res.Violate("C07:escaped-panic:"+panicFrame(sr.Stack), "no input makes a panic escape the connection loop (in production: process death)", sr.Panic+"\n"+clipS(sr.Stack, 2500), desc())
		return res
	}
	if !sr.Snap.Closed || len(srv.Conns()) != 0 {
		res.Violate("C07:not-released:"+c.Kind, "the offending connection is closed and released", fmt.Sprintf("closed=%v registry=%d", sr.Snap.Closed, len(srv.Conns())), desc())
		return res
	}
	frames, _, rest, bad, _ := resp.DecodeAll(sr.Snap.Out)
	res.Count("frames", int64(len(frames)))
	if bad != "" || (rest != 0 && c.Ending == sconn.EOF) {
		res.Violate("C07:garbage-reply:"+c.Kind, "the offending connection receives error replies or is closed", fmt.Sprintf("reply stream broken after %d frames: %s (rest %d)", len(frames), bad, rest), desc())
		return res
	}
	if c.Kind == "sweep" {
		// every request answered, stream in sync to the very end
		if len(frames) != len(c.Reqs) || !resp.Equal(frames[len(frames)-1], resp.BulkS("sync")) {
			res.Violate("C07:sweep-desync:"+c.Handler, "every boundary request is answered by one reply and the connection stays usable", fmt.Sprintf("%d requests, %d frames", len(c.Reqs), len(frames)), desc())
			return res
		}
		errs := 0
		for _, f := range frames {
			if f.IsErr() {
				errs++
				if strings.Contains(string(f.B), "internal system error") {
					res.Count("recovered_panics_seen_as_error_replies", 1)
				}
			}
		}
		res.Count("sweep_error_replies", int64(errs))
		res.Count("sweep_requests", int64(len(c.Reqs)))
	}
	if idx%199 == 0 {
		res.Sample = map[string]any{"kind": c.Kind, "handler": c.Handler, "requests": len(c.Reqs), "frames": len(frames), "stream_hex": hexClip(stream, 160)}
	}
	return res
}

// ------------------------------------------------------------ process level

// c07srv: `vcheck c07srv <port>` runs the real example server on a real port.
func c07srvMain(args []string) int {
	port, _ := strconv.Atoi(args[0])
	if lim := os.Getenv("VERIF_AS_LIMIT"); lim != "" {
		if v, err := strconv.ParseUint(lim, 10, 64); err == nil {
			l := syscall.Rlimit{Cur: v, Max: v}
			syscall.Setrlimit(syscall.RLIMIT_AS, &l)
		}
	}
	srv := exsrv.NewServer()
	srv.SetPort(port)
	if err := srv.Start(); err != nil {
		fmt.Println("START-FAILED", err)
		return 3
	}
	fmt.Println("READY")
	// exit when stdin closes (parent gone) or on "quit"
	sc := bufio.NewScanner(os.Stdin)
	for sc.Scan() {
		if sc.Text() == "quit" {
			break
		}
	}
	srv.Stop()
	return 0
}

func freePort() int {
	l, err := net.Listen("tcp", "127.0.0.1:0")
	if err != nil {
		return 0
	}
	defer l.Close()
	return l.Addr().(*net.TCPAddr).Port
}

type srvProc struct {
	cmd    *exec.Cmd
	stdin  io.WriteCloser
	port   int
	stderr *bytes.Buffer
	done   chan error
}

func startSrv() (*srvProc, error) {
	for attempt := 0; attempt < 5; attempt++ {
		port := freePort()
		cmd := exec.Command(exe0(), "c07srv", strconv.Itoa(port))
		cmd.Env = append(os.Environ(), "VERIF_AS_LIMIT=4294967296")
		var se bytes.Buffer
		cmd.Stderr = &se
		in, _ := cmd.StdinPipe()
		out, _ := cmd.StdoutPipe()
		if err := cmd.Start(); err != nil {
			return nil, err
		}
		rd := bufio.NewReader(out)
		line, _ := rd.ReadString('\n')
		if strings.HasPrefix(line, "READY") {
			p := &srvProc{cmd: cmd, stdin: in, port: port, stderr: &se, done: make(chan error, 1)}
			go func() { io.Copy(io.Discard, rd); p.done <- cmd.Wait() }()
			return p, nil
		}
		in.Close()
		cmd.Wait()
	}
	return nil, fmt.Errorf("could not start the server child")
}

func (p *srvProc) alive() bool {
	select {
	case err := <-p.done:
		p.done <- err
		return false
	default:
		return true
	}
}

func (p *srvProc) stop() {
	fmt.Fprintln(p.stdin, "quit")
	p.stdin.Close()
	select {
	case <-p.done:
	case <-time.After(3 * time.Second):
		p.cmd.Process.Kill()
	}
}

func exe0() string {
	e, err := os.Executable()
	if err != nil {
		return os.Args[0]
	}
	return e
}

// tcpClient is a minimal strict RESP client.
type tcpClient struct {
	c   net.Conn
	buf []byte
}

func dialSrv(port int) (*tcpClient, error) {
	sconn.NextSeq() // progress for the child watchdog
	c, err := net.DialTimeout("tcp", fmt.Sprintf("127.0.0.1:%d", port), 5*time.Second)
	if err != nil {
		return nil, err
	}
	return &tcpClient{c: c}, nil
}

func (t *tcpClient) do(args ...string) (resp.Value, error) {
	sconn.NextSeq() // progress for the child watchdog
	t.c.SetDeadline(time.Now().Add(20 * time.Second))
	if _, err := t.c.Write(resp.Encode(resp.Cmd(args...))); err != nil {
		return resp.Value{}, err
	}
	return t.read()
}

func (t *tcpClient) read() (resp.Value, error) {
	sconn.NextSeq() // progress for the child watchdog
	tmp := make([]byte, 4096)
	for {
		v, n, st, why := resp.Decode(t.buf)
		switch st {
		case resp.Complete:
			t.buf = t.buf[n:]
			return v, nil
		case resp.Invalid:
			return resp.Value{}, fmt.Errorf("invalid reply framing: %s (%s)", why, hexClip(t.buf, 60))
		}
		n, err := t.c.Read(tmp)
		if n > 0 {
			t.buf = append(t.buf, tmp[:n]...)
			continue
		}
		if err != nil {
			return resp.Value{}, err
		}
	}
}

func strOf(v resp.Value) (string, bool) {
	if (v.K == '+' || v.K == '$') && !v.Null {
		return string(v.B), true
	}
	return "", false
}

type attack struct {
	Stream []byte
	End    string // fin | rst | halfclose | noread
	Kind   string
}

func c07attack(r *rng.R, i int) attack {
	var a attack
	a.End = rng.Pick(r, []string{"fin", "rst", "halfclose", "fin", "rst"})
	switch r.Intn(10) {
	case 9:
		// a key of 64 'a' and patterns with two dozen stars that almost match it: a backtracking matcher needs
		// ages for them (inside the command lock); matching is linear in Redis's terms for a regexp-based one
		key := strings.Repeat("a", 64)
		pat := strings.Repeat("a*", 24) + "b"
		a.Stream = resp.EncodeAll(resp.Cmd("SET", key, "v"), resp.Cmd("KEYS", pat), resp.Cmd("SCAN", "0", "MATCH", pat, "COUNT", "100"), resp.Cmd("KEYS", strings.Repeat("*a", 20)+"*c"), resp.Cmd("DEL", key))
		a.Kind = "pathological-glob"
		a.End = "halfclose"
		return a
	case 8:
		if r.Bool() {
			// one connection sends commands of the WRONG TYPE for large containers (each answered with an error)
			// while another connection writes those containers (handled by wrongTypeVsWriter)
			a.Kind = "wrong-type-commands-vs-writer"
			a.End = "concurrent"
			a.Stream = []byte(fmt.Sprintf("wrong-type-%d", i))
			return a
		}
		// one connection floods CONFIG SET/GET while other clients connect and go away (handled by configChurn)
		a.Kind = "config-set-flood-vs-connection-churn"
		a.End = "concurrent"
		a.Stream = []byte(fmt.Sprintf("config-churn-%d", i))
		return a
	case 7:
		// not an attack on the parser but on the reply path: another client fetches large replies while the
		// witness is slow to pick up its own large reply (handled by slowWitness, no stream of its own)
		a.Kind = "big-replies-vs-slow-reading-witness"
		a.End = "concurrent"
		a.Stream = []byte(fmt.Sprintf("big-replies-%d", i))
		return a
	case 6:
		// the heavy classes explicitly: deep nesting, allocation-bomb headers, very wide arrays
		var heavy []c06case
		want := rng.Pick(r, []string{"deep-nesting", "deep-nesting", "bomb-header", "wide", "deep-nesting-16MiB", "blank-lines-32MiB"})
		for _, f := range c06.fixed {
			if f.Class == want {
				heavy = append(heavy, f)
			}
		}
		h := rng.Pick(r, heavy)
		a.Stream = h.Stream
		a.Kind = "heavy:" + h.Class
		a.End = "halfclose-wait" // stay until the server has digested the stream (it closes, or dies)
	case 0:
		if len(c06.fixed) > 0 && r.Bool() {
			a.Stream = c06.fixed[r.Intn(len(c06.fixed))].Stream
		} else {
			a.Stream = c06get(len(c06.fixed) + r.Intn(1<<30)).Stream
		}
		a.Kind = "hostile-stream"
	case 1:
		n := 1 + r.Intn(4)
		var vs []resp.Value
		for k := 0; k < n; k++ {
			vs = append(vs, c04toplevel(r, "a"))
		}
		a.Stream = resp.EncodeAll(vs...)
		a.Kind = "toplevel"
	case 2:
		lo := r.Intn(len(c07sweep))
		hi := lo + 1 + r.Intn(40)
		if hi > len(c07sweep) {
			hi = len(c07sweep)
		}
		a.Stream = resp.EncodeAll(append(populateRequests(), c07sweep[lo:hi]...)...)
		a.Kind = "sweep"
	case 3:
		pc := genPipe(r, i, 8, i, true)
		a.Stream, _ = encodeReqs(pc.values())
		a.Kind = "pipeline"
	case 4:
		// a client that stops reading while the server writes large replies
		var vs []resp.Value
		vs = append(vs, resp.Cmd("SET", "big", strings.Repeat("x", 500000)))
		for k := 0; k < 64; k++ { // 32 MB of replies: far more than the socket buffers hold
			vs = append(vs, resp.Cmd("GET", "big"))
		}
		a.Stream = resp.EncodeAll(vs...)
		a.End = "noread"
		a.Kind = "never-reading"
	default:
		pc := genPipe(r, i, 5, i, false)
		s, _ := encodeReqs(pc.values())
		a.Stream = s[:r.Intn(len(s)+1)]
		a.Kind = "mid-request-cut"
	}
	if len(a.Stream) > 1<<20 && a.Kind != "heavy:deep-nesting-16MiB" && a.Kind != "heavy:blank-lines-32MiB" {
		a.Stream = a.Stream[:1<<20]
	}
	return a
}

// play runs the attack. For the never-reading attacker the connection is left open and stalled; the
// returned function ends it (RST). For every other ending the returned function does nothing.
func (a attack) play(port int) (finish func()) {
	finish = func() {}
	c, err := net.DialTimeout("tcp", fmt.Sprintf("127.0.0.1:%d", port), 5*time.Second)
	if err != nil {
		return
	}
	tc := c.(*net.TCPConn)
	tc.SetDeadline(time.Now().Add(10 * time.Second))
	drain := func(d time.Duration) {
		tc.SetReadDeadline(time.Now().Add(d))
		io.Copy(io.Discard, tc)
	}
	switch a.End {
	case "noread":
		tc.SetWriteDeadline(time.Now().Add(2 * time.Second))
		tc.Write(a.Stream)
		return func() {
			tc.SetLinger(0)
			tc.Close()
		}
	case "rst":
		tc.Write(a.Stream)
		drain(30 * time.Millisecond)
		tc.SetLinger(0)
		tc.Close()
	case "halfclose":
		tc.Write(a.Stream)
		tc.CloseWrite()
		drain(300 * time.Millisecond)
		tc.Close()
	case "halfclose-wait":
		tc.SetDeadline(time.Now().Add(60 * time.Second))
		tc.Write(a.Stream)
		tc.CloseWrite()
		drain(60 * time.Second) // returns as soon as the server closes the connection
		tc.Close()
	default:
		tc.Write(a.Stream)
		drain(30 * time.Millisecond)
		tc.Close()
	}
	return
}

func c07session(idx int) run.Result {
	var res run.Result
	res.Idx = idx
	r := rng.New(c07.seed, rng.Str("C07sess"), uint64(idx))
	res.Classes = []string{"process-level-session"}
	srv, err := startSrv()
	if err != nil {
		res.Inconclusive = "could not start server child: " + err.Error()
		return res
	}
	defer func() { srv.stop() }()
	wit, err := dialSrv(srv.port)
	if err != nil {
		res.Inconclusive = "witness could not connect"
		return res
	}
	defer func() { wit.c.Close() }()
	restart := func() bool {
		srv.stop()
		wit.c.Close()
		var e error
		srv, e = startSrv()
		if e != nil {
			return false
		}
		wit, e = dialSrv(srv.port)
		return e == nil
	}
	for i := 0; i < c07.perSess; i++ {
		if len(res.Violations) >= 3 {
			// three attacks of this session have already disturbed the witness or killed the server: the rest of
			// the session would only repeat it, at one witness time-out (20 s) apiece
			res.Count("attacks_not_played_after_three_violations", int64(c07.perSess-i))
			break
		}
		a := c07attack(r, idx*1000+i)
		n := fmt.Sprint(idx*1000 + i)
		desc := map[string]any{"attack_kind": a.Kind, "attack_ending": a.End, "attack_stream_hex": hexClip(a.Stream, 400), "attack_len": len(a.Stream)}
		res.Keys = append(res.Keys, gen.Hash64(a.Stream)^gen.Hash64([]byte(a.End)))
		res.Count("attack:"+a.Kind, 1)
		res.Count("ending:"+a.End, 1)
		fail := func(sig, clause, detail string) {
			if !srv.alive() {
				se := srv.stderr.String()
				why := firstLineOf(se, "panic:", "fatal error:")
				res.Violate("C07:process-died:"+panicFrame(se), "the server process keeps running whatever one connection sends", why+"\n"+clipS(se, 3000), desc)
			} else {
				res.Violate(sig, clause, detail, desc)
			}
		}
		v, err := wit.do("SET", "w:"+n, n)
		if s, ok := strOf(v); err != nil || !ok || s != "OK" {
			fail("C07:witness-before:"+a.Kind, "the witness connection keeps receiving the correct replies", fmt.Sprintf("SET before attack: %v %v", v, err))
			if !restart() {
				res.Inconclusive = "could not restart server child"
				return res
			}
			continue
		}
		if a.Kind == "wrong-type-commands-vs-writer" {
			bad := wrongTypeVsWriter(srv.port, n, &res, wit)
			res.Count("witness_exchanges", 1)
			if bad != "" {
				fail("C07:witness-disturbed:"+a.Kind, "every other connection continues to receive the correct replies to its own requests", bad)
				if !restart() {
					res.Inconclusive = "could not restart server child"
					return res
				}
			}
			continue
		}
		if a.Kind == "config-set-flood-vs-connection-churn" {
			bad := configChurn(srv.port, n, &res, wit)
			res.Count("witness_exchanges", 1)
			if bad != "" {
				fail("C07:witness-disturbed:"+a.Kind, "every other connection continues to receive the correct replies to its own requests and new connections are accepted", bad)
				if !restart() {
					res.Inconclusive = "could not restart server child"
					return res
				}
			}
			continue
		}
		if a.End == "concurrent" {
			bad, inconcl := slowWitness(srv.port, n, &res)
			res.Count("witness_exchanges", 1)
			if inconcl != "" {
				res.Count("slow_witness_inconclusive", 1)
			} else if bad != "" {
				fail("C07:witness-disturbed:"+a.Kind, "every other connection continues to receive the correct replies to its own requests", bad)
				if !restart() {
					res.Inconclusive = "could not restart server child"
					return res
				}
			}
			continue
		}
		finish := a.play(srv.port)
		witness := func() string {
			if v, err := wit.do("GET", "w:"+n); err != nil {
				return fmt.Sprintf("GET after attack: %v", err)
			} else if s, ok := strOf(v); !ok || s != n {
				return fmt.Sprintf("GET w:%s after attack answered %s", n, v)
			} else if v, err := wit.do("ECHO", n); err != nil || !resp.Equal(v, resp.BulkS(n)) {
				return fmt.Sprintf("ECHO after attack: %v %v", v, err)
			}
			return ""
		}
		// the witness is exercised while a never-reading attacker is still connected and stalled
		bad := witness()
		finish()
		if bad != "" && a.End == "noread" && srv.alive() {
			// causality: once the stalled attacker is gone, does a fresh witness get served again?
			if w2, err := dialSrv(srv.port); err == nil {
				v, err2 := w2.do("ECHO", "released")
				w2.c.Close()
				if err2 == nil && resp.Equal(v, resp.BulkS("released")) {
					bad += " (and the server answered again as soon as the never-reading connection was reset: it had been holding up the other clients)"
				}
			}
			wit.c.Close()
			if w3, err := dialSrv(srv.port); err == nil {
				wit = w3
			}
		}
		if bad == "" {
			fresh, err := dialSrv(srv.port)
			if err != nil {
				bad = "fresh dial refused: " + err.Error()
			} else {
				v, err := fresh.do("PING")
				if s, ok := strOf(v); err != nil || !ok || s != "PONG" {
					bad = fmt.Sprintf("fresh PING: %v %v", v, err)
				}
				fresh.c.Close()
			}
		}
		res.Count("witness_exchanges", 3)
		if bad != "" {
			fail("C07:witness-disturbed:"+a.Kind+":"+a.End, "every other connection continues to receive the correct replies and new connections are accepted", bad)
			if !restart() {
				res.Inconclusive = "could not restart server child"
				return res
			}
		}
	}
	res.NonTrivial = false
	if idx%5 == 0 {
		res.Sample = map[string]any{"session": idx, "attacks": c07.perSess, "server_port": srv.port}
	}
	return res
}

// slowWitness: a witness connection with a small receive buffer asks for an 8 MiB value and picks the reply up
// late; meanwhile another connection fetches its own 8 MiB value several times. Both must get exactly their
// own bytes. (The reply write of the witness is still in flight - the socket buffers cannot hold it - while
// the other connection's replies are produced.)
func slowWitness(port int, n string, res *run.Result) (bad string, inconclusive string) {
	const size = 8 << 20
	pat := func(tag string) string {
		unit := tag + n + ";"
		return strings.Repeat(unit, size/len(unit)+1)[:size]
	}
	wv, av := pat("w"), pat("a")
	sw, err := dialSrv(port)
	if err != nil {
		return "", "slow witness could not connect"
	}
	defer sw.c.Close()
	sw.c.(*net.TCPConn).SetReadBuffer(32 << 10)
	at, err := dialSrv(port)
	if err != nil {
		return "", "second client could not connect"
	}
	defer at.c.Close()
	if v, err := sw.do("SET", "wbig:"+n, wv); err != nil || !resp.Equal(v, resp.Status("OK")) {
		return fmt.Sprintf("SET of the witness's large value: %v %v", v, err), ""
	}
	if v, err := at.do("SET", "abig:"+n, av); err != nil || !resp.Equal(v, resp.Status("OK")) {
		return fmt.Sprintf("SET of the second client's large value: %v %v", v, err), ""
	}
	sw.c.SetDeadline(time.Now().Add(60 * time.Second))
	if _, err := sw.c.Write(resp.Encode(resp.Cmd("GET", "wbig:"+n))); err != nil {
		return "", "write failed"
	}
	// wait (watchdog 2 s, not a verdict) until the server has started writing the reply: its socket has unsent data queued
	lp := sw.c.LocalAddr().(*net.TCPAddr).Port
	for dl := time.Now().Add(2 * time.Second); time.Now().Before(dl) && txQueue(port, lp) == 0; {
		time.Sleep(time.Millisecond)
	}
	if txQueue(port, lp) > 0 {
		res.Count("slow_witness_reply_write_in_flight", 1)
	}
	diffAt := func(got resp.Value, want string) string {
		if got.K != '$' || got.Null {
			return "not a bulk string: " + clipS(got.String(), 80)
		}
		if string(got.B) == want {
			return ""
		}
		if len(got.B) != len(want) {
			return fmt.Sprintf("length %d, want %d", len(got.B), len(want))
		}
		for i := range got.B {
			if got.B[i] != want[i] {
				lo := i - 8
				if lo < 0 {
					lo = 0
				}
				return fmt.Sprintf("byte %d differs: got %q, want %q", i, got.B[lo:i+24], want[lo:i+24])
			}
		}
		return "?"
	}
	for k := 0; k < 4; k++ {
		v, err := at.do("GET", "abig:"+n)
		if err != nil {
			return fmt.Sprintf("second client GET #%d: %v", k, err), ""
		}
		if d := diffAt(v, av); d != "" {
			return fmt.Sprintf("the second client's GET #%d of its own 8 MiB value returned other bytes: %s", k, d), ""
		}
	}
	v, err := sw.read()
	if err != nil {
		return fmt.Sprintf("slow witness read: %v", err), ""
	}
	if d := diffAt(v, wv); d != "" {
		return "the slow-reading witness's GET of its own 8 MiB value returned bytes it never wrote (while another client was fetching large replies): " + d, ""
	}
	at.do("DEL", "abig:"+n)
	sw.do("DEL", "wbig:"+n)
	return "", ""
}

// configChurn: one connection pipelines CONFIG SET / CONFIG GET as fast as it can while twelve others connect,
// PING and vanish over and over; the witness keeps doing exact SET/GET exchanges. Every exchange has a 10 s
// deadline (a watchdog: a reply that does not come at all is the violation, not a slow one).
// wrongTypeVsWriter: a hash with 20000 fields, a list and a set are written by one connection while another sends
// them commands of the wrong type (LLEN on the hash, HGET on the list, ...): each of those is answered (with an error, nil
// or 0) and nothing else happens - whatever the server does to produce that reply, it does not disturb the writer,
// the witness or the process. A fixed number of operations per connection, no clock in the verdict.
func wrongTypeVsWriter(port int, n string, res *run.Result, wit *tcpClient) string {
	setup, err := dialSrv(port)
	if err != nil {
		return "setup connection: " + err.Error()
	}
	defer setup.c.Close()
	h, l, st := "wt:h:"+n, "wt:l:"+n, "wt:s:"+n
	for b := 0; b < 10; b++ {
		args := []string{"HMSET", h}
		for k := 0; k < 2000; k++ {
			args = append(args, fmt.Sprint("f", b*2000+k), "v")
		}
		if v, err := setup.do(args...); err != nil || v.IsErr() {
			return fmt.Sprintf("populating the hash: %v %v", v, err)
		}
	}
	if v, err := setup.do("RPUSH", l, "a", "b", "c"); err != nil || v.IsErr() {
		return fmt.Sprintf("populating the list: %v %v", v, err)
	}
	if v, err := setup.do("SADD", st, "a", "b", "c"); err != nil || v.IsErr() {
		return fmt.Sprintf("populating the set: %v %v", v, err)
	}
	var wg sync.WaitGroup
	var bad atomic.Value
	run := func(name string, reqs func(i int) [][]string, wantErr bool) {
		defer wg.Done()
		c, err := dialSrv(port)
		if err != nil {
			bad.CompareAndSwap(nil, name+": "+err.Error())
			return
		}
		defer c.c.Close()
		for i := 0; i < 150; i++ {
			for _, q := range reqs(i) {
				v, err := c.do(q...)
				if err != nil {
					bad.CompareAndSwap(nil, fmt.Sprintf("%s: %v: %v", name, q[:2], err))
					return
				}
				// (what a command answers for a key of another type - an error, nil, 0 - is the store's business
				// here; that it answers, with a well-formed reply, is what counts)
				if !wantErr && v.IsErr() {
					bad.CompareAndSwap(nil, fmt.Sprintf("%s: %v answered %s", name, q[:2], clipS(v.String(), 120)))
					return
				}
			}
		}
	}
	wg.Add(2)
	go run("wrong-type connection", func(i int) [][]string {
		return [][]string{{"LLEN", h}, {"SCARD", h}, {"LRANGE", h, "0", "-1"}, {"SMEMBERS", h}, {"ZCARD", h}, {"HGET", l, "f"}, {"SADD", l, "m"}, {"LPUSH", st, "x"}, {"ZADD", l, "1", "m"}}
	}, true)
	go run("writer connection", func(i int) [][]string {
		return [][]string{{"HSET", h, fmt.Sprint("g", i), "v"}, {"HDEL", h, fmt.Sprint("f", i)}, {"RPUSH", l, fmt.Sprint("e", i)}, {"SADD", st, fmt.Sprint("m", i)}}
	}, false)
	wg.Wait()
	res.Count("wrong_type_vs_writer_rounds", 1)
	if b := bad.Load(); b != nil {
		return b.(string)
	}
	if v, err := wit.do("ECHO", n); err != nil || !resp.Equal(v, resp.BulkS(n)) {
		return fmt.Sprintf("witness ECHO after the round: %v %v", v, err)
	}
	setup.do("DEL", h, l, st)
	return ""
}

func configChurn(port int, n string, res *run.Result, wit *tcpClient) string {
	stop := make(chan struct{})
	var wg sync.WaitGroup
	var churnErr, floodErr atomic.Value
	wg.Add(1)
	go func() {
		defer wg.Done()
		c, err := dialSrv(port)
		if err != nil {
			return
		}
		defer c.c.Close()
		for i := 0; ; i++ {
			select {
			case <-stop:
				return
			default:
			}
			c.c.SetDeadline(time.Now().Add(10 * time.Second))
			var batch []byte
			for k := 0; k < 16; k++ {
				batch = append(batch, resp.Encode(resp.Cmd("CONFIG", "SET", "verif-"+n, fmt.Sprint(i*16+k)))...)
			}
			if _, err := c.c.Write(batch); err != nil {
				floodErr.Store(err.Error())
				return
			}
			for k := 0; k < 16; k++ {
				if _, err := c.read(); err != nil {
					floodErr.Store(err.Error())
					return
				}
			}
		}
	}()
	for w := 0; w < 12; w++ {
		wg.Add(1)
		go func() {
			defer wg.Done()
			for {
				select {
				case <-stop:
					return
				default:
				}
				c, err := dialSrv(port)
				if err != nil {
					continue
				}
				c.c.SetDeadline(time.Now().Add(10 * time.Second))
				if _, err := c.c.Write(resp.Encode(resp.Cmd("PING"))); err == nil {
					if _, err := c.read(); err != nil {
						churnErr.Store("a freshly connected client got no reply to PING: " + err.Error())
					}
				}
				c.c.(*net.TCPConn).SetLinger(0)
				c.c.Close()
			}
		}()
	}
	bad := ""
	exchanges := 0
	for i := 0; i < 600 && bad == ""; i++ {
		k, v := fmt.Sprintf("w:%s:%d", n, i), fmt.Sprint(i)
		wit.c.SetDeadline(time.Now().Add(10 * time.Second))
		if _, err := wit.c.Write(resp.EncodeAll(resp.Cmd("SET", k, v), resp.Cmd("GET", k))); err != nil {
			bad = "witness write: " + err.Error()
			break
		}
		r1, err := wit.read()
		if err != nil {
			bad = fmt.Sprintf("the witness got no reply to SET (exchange %d) while another connection flooded CONFIG SET and clients connected: %v", i, err)
			break
		}
		r2, err := wit.read()
		if err != nil {
			bad = fmt.Sprintf("the witness got no reply to GET (exchange %d): %v", i, err)
			break
		}
		if s, ok := strOf(r1); !ok || s != "OK" {
			bad = "witness SET answered " + r1.String()
		} else if s, ok := strOf(r2); !ok || s != v {
			bad = fmt.Sprintf("witness GET %s answered %s", k, r2)
		}
		exchanges++
	}
	close(stop)
	wg.Wait()
	res.Count("config_churn_witness_exchanges", int64(exchanges))
	if bad == "" {
		if e, _ := churnErr.Load().(string); e != "" {
			bad = e
		} else if e, _ := floodErr.Load().(string); e != "" {
			bad = "the CONFIG SET connection itself stopped getting replies: " + e
		}
	}
	return bad
}

// txQueue returns the unsent bytes queued on the socket srvPort->cliPort (any process in this network namespace).
func txQueue(srvPort, cliPort int) int64 {
	l, r := fmt.Sprintf(":%04X", srvPort), fmt.Sprintf(":%04X", cliPort)
	for _, f := range []string{"/proc/net/tcp", "/proc/net/tcp6"} {
		b, err := os.ReadFile(f)
		if err != nil {
			continue
		}
		for _, ln := range strings.Split(string(b), "\n")[1:] {
			fs := strings.Fields(ln)
			if len(fs) >= 5 && strings.HasSuffix(fs[1], l) && strings.HasSuffix(fs[2], r) {
				var tx, rx int64
				fmt.Sscanf(fs[4], "%x:%x", &tx, &rx)
				return tx
			}
		}
	}
	return 0
}

func firstLineOf(s string, prefixes ...string) string {
	for _, l := range strings.Split(s, "\n") {
		for _, p := range prefixes {
			if strings.HasPrefix(l, p) {
				return l
			}
		}
	}
	return "(no panic line on stderr)"
}

func init() {
	extra["c07srv"] = c07srvMain
	run.Register(&run.Prop{
		ID: "C07", Level: "exploration",
		Rule: func(tier string) string {
			return "two monitors. (in-process, hook H1, handlers: bundled example store and a recording double alternating) complete boundary-argument sweep of index/count/limit/score arithmetic (12x12 grids of {-2^63..2^63-1} for GETRANGE/SUBSTR/LRANGE/ZRANGE/ZREVRANGE, LIMIT offset x count grids, 12x12 score-bound grids, extreme ints/floats, empty and wrong-type keys) on populated and missing keys, in batches of 60 requests; then seeded pipelines (C03), hostile streams (C06), top-level values and malformed handler results (C04) ending in EOF or reset. Oracle: no panic reaches the wrapper around the connection loop, the loop returns, the connection is closed and deregistered, replies are well-framed, sweeps stay in sync to a trailing ECHO. (process level) sessions against a child running the real example server on a real TCP port under RLIMIT_AS=4GiB: an attacker connection plays one hostile case and ends by FIN, RST (SO_LINGER 0), half-close, mid-request cut or never reading; a witness connection opened before does SET/GET/ECHO around each attack and must get exact replies; in one attack class out of eight a slow-reading witness (32 KiB receive buffer) fetches its own 8 MiB value while another client fetches a different 8 MiB value four times, and both must get exactly their own bytes; in another the attacker stores a key of 64 'a' and asks KEYS / SCAN MATCH for patterns with two dozen stars that almost match it; in another class one connection floods CONFIG SET while twelve others connect, PING and vanish in a loop and the witness does 600 exact SET/GET exchanges; in another one connection sends 150 rounds of commands of the wrong type to a 20000-field hash, a list and a set while another writes them; in-process, four cases push 40000 elements onto a list in one request (the child watchdog's spin criterion bounds the work per request); a fresh dial + PING must succeed; child exit = violation. distinct = hash of stream+handler (in-process) / attack stream+ending (process level)"
		},
		Assumptions: []string{"allocation behaviour is judged under RLIMIT_AS=4GiB", "handlers other than the example store are represented by the recording double (non-panicking)"},
		Setup: func(tier string, seed uint64) int {
			resp.LaxIntegers = true
			c07.seed, c07.tier = seed, tier
			c06.seed = seed
			c06.exh = gen.Exhaustive()
			c06.fixed = c06fixed()
			c07sweep = sweepRequests()
			nSweep := 2 * ((len(c07sweep) + sweepBatch - 1) / sweepBatch)
			c07.nInproc = nSweep + map[string]int{"quick": 4000, "thorough": 200000}[tier]
			c07.nSession = map[string]int{"quick": 16, "thorough": 320}[tier]
			c07.perSess = map[string]int{"quick": 20, "thorough": 60}[tier]
			return c07.nInproc + c07.nSession
		},
		Run: func(idx int) run.Result {
			if idx < c07.nInproc {
				return c07inproc(idx)
			}
			return c07session(idx - c07.nInproc)
		},
		Describe: func(idx int) any {
			if idx < c07.nInproc {
				c := c07get(idx)
				return map[string]any{"sig": c.Kind + ":" + c.Handler, "kind": c.Kind, "requests": reqStrings(c.Reqs), "stream_hex": hexClip(c.Stream, 300)}
			}
			return map[string]any{"sig": "session", "session": idx - c07.nInproc}
		},
		Chunk:         40,
		MinConclusive: 200,
		ASLimit:       4 << 30,
	})
}
