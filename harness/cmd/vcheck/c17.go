package main

import (
	"fmt"
	"sort"
	"strings"
	"sync"
	"unicode/utf8"

	exsrv "github.com/cybergarage/go-redis/examples/go-redisd/server"
	"github.com/cybergarage/go-redis/redis/glob"
	"verif/double"
	"verif/gen"
	"verif/globref"
	"verif/resp"
	"verif/rng"
	"verif/run"
	"verif/sconn"
)

var c17alpha = []byte("ab*?.+(|$")
var c17ext = []byte("ab*?.+(|$^{}), \n0")

var c17 struct {
	seed     uint64
	tier     string
	pats     []string // enumerated patterns (part 1)
	keysFor  func(p string) []string
	keys3    []string
	keys4    []string
	keys5    []string
	nRandom  int
	srvPats  [][]string // part 2 batches
	storeKey []string
}

func strsOver(alpha []byte, maxLen int) []string {
	bs := gen.Strings(alpha, maxLen)
	out := make([]string, len(bs))
	for i, b := range bs {
		out[i] = string(b)
	}
	return out
}

func c17setup(tier string, seed uint64) int {
	c17.seed, c17.tier = seed, tier
	c17.keys3 = strsOver(c17alpha, 3)
	c17.keys4 = strsOver(c17alpha, 4)
	if tier == "thorough" {
		c17.keys5 = strsOver(c17alpha, 5)
		c17.pats = strsOver(c17alpha, 5)
		c17.nRandom = 200000
	} else {
		c17.pats = strsOver(c17alpha, 4)
		c17.nRandom = 20000
	}
	// part 2: patterns <= 3 in batches of 41 (+ seeded longer ones)
	c17.storeKey = strsOver(c17alpha, 2)
	all := strsOver(c17alpha, 3)
	r := rng.New(seed, rng.Str("C17srv"))
	nLong := map[string]int{"quick": 410, "thorough": 8200}[tier]
	for i := 0; i < nLong; i++ {
		all = append(all, string(r.From(c17alpha, 4+r.Intn(3))))
	}
	c17.srvPats = nil
	for i := 0; i < len(all); i += 41 {
		j := i + 41
		if j > len(all) {
			j = len(all)
		}
		c17.srvPats = append(c17.srvPats, all[i:j])
	}
	return len(c17.pats) + c17.nRandom + len(c17.srvPats)
}

func hasMeta(p string) bool { return strings.ContainsAny(p, "*?.+(|$^{}),") }

func c17compile(p string) (g *glob.Glob, err error, panicked string) {
	defer func() {
		if e := recover(); e != nil {
			panicked = fmt.Sprint(e)
		}
	}()
	g, err = glob.Compile(p)
	return
}

func c17pairs(res *run.Result, p string, keys []string, block string) bool {
	g, err, pn := c17compile(p)
	if (pn != "" || err != nil || g == nil) && !utf8.ValidString(p) {
		res.Violate("C17:compile:invalid-utf8", "compiling a glob pattern never fails or panics", fmt.Sprintf("glob.Compile(%q): err=%v panic=%q", p, err, pn), map[string]any{"pattern": p})
		return false
	}
	if pn != "" || err != nil || g == nil {
		res.Violate("C17:compile:"+metaClass(p), "compiling a glob pattern never fails or panics", fmt.Sprintf("glob.Compile(%q): err=%v panic=%q", p, err, pn), map[string]any{"pattern": p})
		return false
	}
	for _, k := range keys {
		want := globref.Match(p, k)
		if got := g.MatchString(k); got != want {
			res.Violate("C17:match:"+metaClass(p)+":"+fmt.Sprint(want), "'*' matches any sequence, '?' one character, every other character only itself, anchored over the whole key", fmt.Sprintf("glob.Compile(%q).MatchString(%q) = %v, reference matcher says %v", p, k, got, want), map[string]any{"pattern": p, "key": k, "block": block})
			return false
		}
	}
	res.Count("pairs:"+block, int64(len(keys)))
	return true
}

// metaClass names the metacharacters a pattern contains (signature component).
func metaClass(p string) string {
	var c []string
	for _, m := range "*?.+(|$^{}), \n" {
		if strings.ContainsRune(p, m) {
			c = append(c, fmt.Sprintf("%q", m))
		}
	}
	return strings.Join(c, "")
}

func c17run(idx int) run.Result {
	var res run.Result
	res.Idx = idx
	switch {
	case idx < len(c17.pats):
		p := c17.pats[idx]
		res.Key = gen.Hash64([]byte(p))
		res.NonTrivial = hasMeta(p)
		res.Classes = []string{"enumerated-pattern"}
		// complete blocks: quick: |p|<=3 x |k|<=4; thorough: |p|<=4 x |k|<=4, |p|<=5 x |k|<=3, |p|<=3 x |k|<=5
		switch {
		case c17.tier != "thorough" && len(p) <= 3:
			c17pairs(&res, p, c17.keys4, "pat<=3 x key<=4 (complete)")
		case c17.tier != "thorough":
			c17pairs(&res, p, c17.keys3, "pat=4 x key<=3 (complete)")
		case len(p) <= 3:
			c17pairs(&res, p, c17.keys5, "pat<=3 x key<=5 (complete)")
		case len(p) == 4:
			c17pairs(&res, p, c17.keys4, "pat=4 x key<=4 (complete)")
		default:
			if c17pairs(&res, p, c17.keys3, "pat=5 x key<=3 (complete)") {
				// the 5x5 product is sampled
				r := rng.New(c17.seed, rng.Str("C17s"), uint64(idx))
				var ks []string
				for i := 0; i < 150; i++ {
					ks = append(ks, string(r.From(c17alpha, 4+r.Intn(2))))
				}
				c17pairs(&res, p, ks, "pat=5 x key 4..5 (sampled)")
			}
		}
		if idx%401 == 0 {
			res.Sample = map[string]any{"pattern": p, "kind": "enumerated"}
		}
	case idx < len(c17.pats)+c17.nRandom:
		r := rng.New(c17.seed, rng.Str("C17r"), uint64(idx))
		p := string(r.From(c17ext, 1+r.Intn(12)))
		if r.Chance(1, 40) {
			// a byte that is not valid UTF-8 somewhere in the pattern (keys and patterns are byte strings)
			at := r.Intn(len(p) + 1)
			p = p[:at] + string([]byte{rng.Pick(r, []byte{0xff, 0x80, 0xc0, 0xfe})}) + p[at:]
		}
		res.Key = gen.Hash64([]byte(p))
		res.NonTrivial = hasMeta(p)
		res.Classes = []string{"random-pattern"}
		var ks []string
		for i := 0; i < 60; i++ {
			if r.Bool() {
				// derive a key from the pattern so that matches are frequent
				var k []byte
				for _, c := range []byte(p) {
					switch c {
					case '*':
						k = append(k, r.From(c17ext, r.Intn(3))...)
					case '?':
						k = append(k, rng.Pick(r, c17ext))
					default:
						if r.Chance(1, 12) {
							k = append(k, rng.Pick(r, c17ext))
						} else {
							k = append(k, c)
						}
					}
				}
				ks = append(ks, string(k))
			} else {
				ks = append(ks, string(r.From(c17ext, r.Intn(12))))
			}
		}
		c17pairs(&res, p, ks, "random pattern<=12 x 60 keys")
		if idx%50 == 7 && len(res.Violations) == 0 {
			// patterns are compiled by many connections (and several servers of one process) at the same time: eight
			// goroutines, released together, compile eight different patterns and match their keys
			pats := []string{p}
			for len(pats) < 8 {
				pats = append(pats, string(r.From(c17ext, 1+r.Intn(12))))
			}
			part := make([]run.Result, len(pats))
			start := make(chan struct{})
			var wg sync.WaitGroup
			for g := range pats {
				wg.Add(1)
				go func(g int) {
					defer wg.Done()
					<-start
					for rep := 0; rep < 20 && len(part[g].Violations) == 0; rep++ {
						c17pairs(&part[g], pats[g], ks, "8 patterns compiled and matched at the same time")
					}
				}(g)
			}
			close(start)
			wg.Wait()
			res.Count("patterns_compiled_concurrently", int64(len(pats)))
			for g := range part {
				for _, v := range part[g].Violations {
					res.Violate(v.Sig+":concurrent", v.Clause, "while seven other patterns were being compiled: "+v.Detail, v.Case)
				}
			}
		}
		if idx%2003 == 0 {
			res.Sample = map[string]any{"pattern": p, "kind": "random", "keys": ks[:5]}
		}
	default:
		c17server(&res, c17.srvPats[idx-len(c17.pats)-c17.nRandom])
	}
	return res
}

func keySet(v resp.Value) (string, bool) {
	if v.K != '*' || v.Null {
		return "", false
	}
	var ks []string
	for _, e := range v.A {
		s, ok := strLike(e)
		if !ok {
			return "", false
		}
		ks = append(ks, fmt.Sprintf("%q", s))
	}
	sort.Strings(ks)
	return strings.Join(ks, " "), true
}

// c17server: KEYS p == SCAN 0 MATCH p COUNT 1000 == reference selection.
func c17server(res *run.Result, pats []string) {
	res.Classes = []string{"server-batch"}
	var reqs []resp.Value
	for i, k := range c17.storeKey {
		switch i % 5 {
		case 0:
			reqs = append(reqs, resp.Cmd("HSET", k, "f", "v"))
		case 1:
			reqs = append(reqs, resp.Cmd("RPUSH", k, "e"))
		case 2:
			reqs = append(reqs, resp.Cmd("SADD", k, "m"))
		default:
			reqs = append(reqs, resp.Cmd("SET", k, "v"))
		}
	}
	nPop := len(reqs)
	for _, p := range pats {
		reqs = append(reqs, resp.Cmd("KEYS", p), resp.Cmd("SCAN", "0", "MATCH", p, "COUNT", "1000"))
	}
	stream, ends := encodeReqs(reqs)
	pr := runPipe(exsrv.NewServer().Server, reqs, chunkAt(stream, ends), sconn.Script{End: sconn.EOF})
	if pr.TimedOut {
		res.Inconclusive = "watchdog"
		return
	}
	if pr.Panic != "" || pr.Bad != "" || len(pr.Frames) != len(reqs) {
		res.Violate("C17:server:frames", "KEYS and SCAN are answered", fmt.Sprintf("panic=%q bad=%q frames=%d/%d", pr.Panic, pr.Bad, len(pr.Frames), len(reqs)), map[string]any{"patterns": pats})
		return
	}
	for i, p := range pats {
		var want []string
		for _, k := range c17.storeKey {
			if globref.Match(p, k) {
				want = append(want, fmt.Sprintf("%q", k))
			}
		}
		sort.Strings(want)
		wantS := strings.Join(want, " ")
		kr := pr.Frames[nPop+2*i]
		sr := pr.Frames[nPop+2*i+1]
		res.Keys = append(res.Keys, gen.Hash64([]byte("srv:"+p)))
		res.Count("server_patterns", 1)
		ks, ok := keySet(kr)
		if !ok {
			res.Violate("C17:server:keys-error:"+metaClass(p), "KEYS selects the keys the glob matches (an error reply counts as: compile failed)", fmt.Sprintf("KEYS %q answered %s", p, clipS(kr.String(), 200)), map[string]any{"pattern": p})
			return
		}
		if ks != wantS {
			res.Violate("C17:server:keys:"+metaClass(p), "KEYS selects exactly the keys the glob matches", fmt.Sprintf("KEYS %q = {%s}, reference {%s}", p, clipS(ks, 300), clipS(wantS, 300)), map[string]any{"pattern": p})
			return
		}
		ss, ok := "", false
		if sr.K == '*' && len(sr.A) == 2 {
			ss, ok = keySet(sr.A[1])
		}
		if !ok {
			res.Violate("C17:server:scan-error:"+metaClass(p), "SCAN MATCH selects the keys the glob matches (an error reply counts as: compile failed)", fmt.Sprintf("SCAN 0 MATCH %q COUNT 1000 answered %s", p, clipS(sr.String(), 200)), map[string]any{"pattern": p})
			return
		}
		if ss != wantS {
			res.Violate("C17:server:scan:"+metaClass(p), "KEYS and SCAN MATCH agree on which keys a pattern selects", fmt.Sprintf("SCAN MATCH %q = {%s}, KEYS/reference {%s}", p, clipS(ss, 300), clipS(wantS, 300)), map[string]any{"pattern": p})
			return
		}
	}
	res.Sample = nil
	c17iterate(res, pats)
}

// c17iterate: SCAN the way clients use it - start at cursor 0, pass the returned cursor back until 0 comes back -
// with small and default COUNT values. The union of the keys returned by one full iteration (the key space does
// not change meanwhile) must be exactly the keys the pattern selects, and the iteration must end.
func c17iterate(res *run.Result, pats []string) {
	c17iterateOver(res, c17.storeKey, pats, nil)
	// one batch in eight also iterates over a store of 2500 keys: sparse and dense patterns with small, default
	// and very large COUNT (a call that examines many keys without filling its page, a page larger than the store)
	if res.Inconclusive == "" && len(res.Violations) == 0 && len(pats) > 0 && gen.Hash64([]byte(strings.Join(pats, "\x00")))%8 == 0 {
		var keys []string
		for i := 0; i < 2400; i++ {
			keys = append(keys, fmt.Sprintf("a%04d", i))
		}
		for i := 0; i < 100; i++ {
			keys = append(keys, fmt.Sprintf("a%04d%s", i*24+rangeOf(i), []string{"$", "(", ".", "*", "+"}[i%5]))
		}
		c17iterateOver(res, keys, []string{"*$", "a1*", "*(", "a?0?1", "*9", "a2*."}, []string{"", "10", "5000", "1", "997", "1000", "1001"})
	}
}

func rangeOf(i int) int { return (i * 7) % 24 }

// c17iterateOver: full SCAN iterations over a store holding keys. counts == nil: default COUNT and 1, 3, 7 in turn.
func c17iterateOver(res *run.Result, keys []string, pats []string, counts []string) {
	big := counts != nil
	srv := exsrv.NewServer().Server
	conn := sconn.New(sconn.Script{End: sconn.Hold})
	wait := double.Start(srv, conn, nil)
	defer func() {
		conn.End(sconn.EOF)
		wait(serveWait)
	}()
	exchange := func(req resp.Value) (resp.Value, bool) {
		off := conn.OutLen()
		conn.Feed(resp.Encode(req))
		if conn.WaitIdle(serveWait) != nil {
			return resp.Value{}, false
		}
		vs, _, rest, bad, _ := resp.DecodeAll(conn.OutFrom(off))
		if bad != "" || rest != 0 || len(vs) != 1 {
			return resp.Value{}, false
		}
		return vs[0], true
	}
	for i, k := range keys {
		var req resp.Value
		switch i % 5 {
		case 0:
			req = resp.Cmd("HSET", k, "f", "v")
		case 1:
			req = resp.Cmd("RPUSH", k, "e")
		case 2:
			req = resp.Cmd("SADD", k, "m")
		default:
			req = resp.Cmd("SET", k, "v")
		}
		if _, ok := exchange(req); !ok {
			res.Inconclusive = "population of the store failed"
			return
		}
	}
	if len(pats) > 4 && !big {
		pats = pats[:4]
	}
	for pi, p := range append([]string{"*"}, pats...) {
		want := map[string]bool{}
		for _, k := range keys {
			if globref.Match(p, k) {
				want[k] = true
			}
		}
		cs := []string{"", "1", "3", "7"}[pi%2*2 : pi%2*2+2]
		if big {
			cs = []string{counts[pi%len(counts)], counts[(pi+3)%len(counts)]}
		}
		for _, count := range cs {
			got := map[string]bool{}
			cursor, steps, done := "0", 0, false
			for steps = 0; steps < 2*len(keys)+10; steps++ {
				args := []string{"SCAN", cursor, "MATCH", p}
				if count != "" {
					args = append(args, "COUNT", count)
				}
				v, ok := exchange(resp.Cmd(args...))
				if !ok || v.K != '*' || len(v.A) != 2 || v.A[1].K != '*' {
					res.Violate("C17:server:scan-iteration-reply:"+metaClass(p), "SCAN MATCH selects the keys the glob matches", fmt.Sprintf("SCAN %s MATCH %q COUNT %q answered %s", cursor, p, count, clipS(v.String(), 200)), map[string]any{"pattern": p})
					return
				}
				for _, k := range v.A[1].A {
					got[string(k.B)] = true
				}
				cursor = string(v.A[0].B)
				if cursor == "0" {
					done = true
					break
				}
			}
			res.Count("scan_iterations", 1)
			res.Count("scan_iteration_calls", int64(steps+1))
			if !done {
				res.Violate("C17:server:scan-iteration-endless", "KEYS and SCAN MATCH agree on which keys a pattern selects (a SCAN iteration ends with cursor 0)", fmt.Sprintf("SCAN MATCH %q COUNT %q over %d keys: cursor 0 did not come back within %d calls (last cursor %s)", p, count, len(keys), steps, cursor), map[string]any{"pattern": p, "count": count})
				return
			}
			var missing, extra []string
			for k := range want {
				if !got[k] {
					missing = append(missing, fmt.Sprintf("%q", k))
				}
			}
			for k := range got {
				if !want[k] {
					extra = append(extra, fmt.Sprintf("%q", k))
				}
			}
			if len(missing)+len(extra) > 0 {
				sort.Strings(missing)
				sort.Strings(extra)
				res.Violate("C17:server:scan-iteration:"+metaClass(p), "KEYS and SCAN MATCH agree on which keys a pattern selects", fmt.Sprintf("a full SCAN iteration (MATCH %q COUNT %q, %d calls) selected %d keys; missing {%s} extra {%s}", p, count, steps+1, len(got), clipS(strings.Join(missing, " "), 200), clipS(strings.Join(extra, " "), 200)), map[string]any{"pattern": p, "count": count})
				return
			}
		}
	}
	// The pattern of a SCAN call is the pattern given WITH THAT CALL: an iteration begun with one pattern and
	// continued with another returns, from then on, only keys the other pattern selects (MATCH filters what a
	// call returns; nothing about it is remembered from call to call).
	for _, p2 := range pats {
		for _, p1 := range []string{"*", pats[0]} {
			v, ok := exchange(resp.Cmd("SCAN", "0", "MATCH", p1, "COUNT", "1"))
			if !ok || v.K != '*' || len(v.A) != 2 {
				continue
			}
			cursor := string(v.A[0].B)
			if cursor == "0" {
				continue
			}
			v, ok = exchange(resp.Cmd("SCAN", cursor, "MATCH", p2, "COUNT", "1000"))
			if !ok || v.K != '*' || len(v.A) != 2 || v.A[1].K != '*' {
				res.Violate("C17:server:scan-iteration-reply:"+metaClass(p2), "SCAN MATCH selects the keys the glob matches", fmt.Sprintf("SCAN %s MATCH %q COUNT 1000 answered %s", cursor, p2, clipS(v.String(), 200)), map[string]any{"pattern": p2})
				return
			}
			res.Count("scan_calls_with_a_switched_pattern", 1)
			var extra []string
			for _, k := range v.A[1].A {
				if !globref.Match(p2, string(k.B)) {
					extra = append(extra, fmt.Sprintf("%q", k.B))
				}
			}
			if len(extra) > 0 {
				res.Violate("C17:server:scan-switched-pattern:"+metaClass(p2), "KEYS and SCAN MATCH agree on which keys a pattern selects", fmt.Sprintf("SCAN 0 MATCH %q COUNT 1 gave cursor %s; SCAN %s MATCH %q COUNT 1000 then returned keys that %q does not select: {%s}", p1, cursor, cursor, p2, p2, clipS(strings.Join(extra, " "), 300)), map[string]any{"first_pattern": p1, "pattern": p2})
				return
			}
		}
	}
}

func init() {
	run.Register(&run.Prop{
		ID: "C17", Level: "exploration",
		Rule: func(tier string) string {
			blocks := "complete blocks: patterns of length <=3 x keys of length <=4 (820 x 7381 pairs) and patterns of length 4 x keys of length <=3 (6561 x 820 pairs) over {a,b,*,?,.,+,(,|,$}"
			if tier == "thorough" {
				blocks = "complete blocks: patterns <=3 x keys <=5, patterns =4 x keys <=4, patterns =5 x keys <=3 over {a,b,*,?,.,+,(,|,$}; the remaining patterns =5 x keys 4..5 block is sampled (150 keys per pattern)"
			}
			return "part 1: glob.Compile(p) must not fail or panic and MatchString(k) must equal a direct recursive glob matcher: " + blocks + "; plus seeded random patterns up to length 12 over that alphabet extended with ^ { } ) , space newline 0 (one in forty with a byte that is not valid UTF-8), each against 60 keys derived from the pattern or random (every fiftieth together with seven other patterns compiled and matched by eight goroutines at the same time). part 2: the bundled example store is populated through the real connection loop with all 91 keys of length <=2 (as string, hash, list and set keys) and for every pattern of length <=3 plus seeded longer ones the key sets of KEYS p, SCAN 0 MATCH p COUNT 1000 and the reference selection must be equal; for '*' and four patterns of each batch a full SCAN iteration (cursor 0, then the returned cursor, until 0 comes back) with default COUNT and COUNT 1, 3, 7 must end and select exactly those keys, and a SCAN call that continues an iteration begun with ANOTHER pattern must return only keys its own pattern selects; one batch in eight repeats the full iterations over a store of 2500 keys with COUNT from 1 to 5000. distinct_nontrivial = distinct patterns containing a wildcard or a regexp metacharacter (part 1) plus server patterns (part 2)"
		},
		Exhaustive:  func(tier string) bool { return false },
		Assumptions: []string{"patterns and keys are ASCII; '[', ']' and '\\' (character classes and escapes of Redis globs) are outside the statement and never generated"},
		Setup:       c17setup,
		Run:         c17run,
		Describe: func(idx int) any {
			return map[string]any{"sig": "glob", "idx": idx}
		},
		Chunk:         40,
		MinConclusive: 100,
	})
}
