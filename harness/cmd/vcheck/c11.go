package main

import (
	"bytes"
	"fmt"
	"io"
	"net"
	"sort"
	"strconv"
	"strings"
	"time"

	"github.com/cybergarage/go-redis/redis"
	"verif/double"
	"verif/gen"
	"verif/grammar"
	"verif/resp"
	"verif/rng"
	"verif/run"
	"verif/sconn"
)

var c11 struct {
	seed  uint64
	tier  string
	nPipe int
}

func c11get(idx int) pipeCase {
	r := rng.New(c11.seed, rng.Str("C11"), uint64(idx))
	n := 1 + r.Intn(5)
	var pc pipeCase
	pc.FailAt = map[int]bool{}
	for i := 0; i < n; i++ {
		spec := rng.Pick(r, grammar.Specs)
		if i == 0 {
			spec = grammar.Specs[idx%len(grammar.Specs)]
		}
		for spec.Name == "QUIT" {
			spec = rng.Pick(r, grammar.Specs)
		}
		v := grammar.Generate(spec, r, fmt.Sprintf("t%d.%d", idx, i))
		if i > 0 && r.Chance(1, 4) {
			// boundary shapes of the final argument: empty ('$0'), one byte, ending in CR, ending in CRLF
			last := len(v.Argv) - 1
			if v.Slots[last].Kind == grammar.KStr && v.Slots[last].Role != "optkw" && v.Class == grammar.Core && len(v.Expect) == 1 && v.Cmd != "SCAN" && v.Cmd != "KEYS" {
				tail := rng.Pick(r, []string{"", "x", "\r", "\r\n", "a\r"})
				old := string(v.Argv[last])
				if strings.HasPrefix(old, v.Token+":") {
					// keep the token (attribution) but make the argument END with the boundary shape
					tail = v.Token + ":" + tail
				} else if strings.Count(v.Expect[0].Str, double.Q(old)) != 1 {
					tail = old
				}
				if tail != old && strings.Count(v.Expect[0].Str, double.Q(old)) == 1 {
					v.Argv[last] = []byte(tail)
					v.Expect[0].Str = strings.Replace(v.Expect[0].Str, double.Q(old), double.Q(tail), 1)
				}
			}
		}
		req := v.Value()
		if idx%3 == 1 && r.Chance(1, 2) {
			// the same request with its last argument sent as a RESP line type (simple string, or integer when it is
			// a number) instead of a bulk string: a line has no length prefix, only its CRLF says where it ends
			if last := len(req.A) - 1; last >= 1 && req.A[last].K == '$' && !req.A[last].Null && len(req.A[last].B) > 0 && !bytes.ContainsAny(req.A[last].B, "\r\n") {
				req.A = append([]resp.Value{}, req.A...)
				k := byte('+')
				if _, err := strconv.ParseInt(string(req.A[last].B), 10, 64); err == nil && r.Bool() {
					k = ':'
				}
				req.A[last] = resp.Value{K: k, B: req.A[last].B}
			}
		}
		pc.Reqs = append(pc.Reqs, pipeReq{Kind: "valid", V: v, Req: req})
	}
	return pc
}

// tokenOf returns the request index encoded in a call's arguments ("t<idx>.<i>:"), or -1.
func tokenOf(callStr string, idx int) int {
	p := fmt.Sprintf("t%d.", idx)
	k := strings.Index(callStr, p)
	if k < 0 {
		return -1
	}
	k += len(p)
	n := 0
	digits := 0
	for k < len(callStr) && callStr[k] >= '0' && callStr[k] <= '9' {
		n = n*10 + int(callStr[k]-'0')
		k++
		digits++
	}
	if digits == 0 || k >= len(callStr) || callStr[k] != ':' {
		return -1
	}
	return n
}

func sortedGroup(cs []double.Call) string {
	ss := callStrs(cs)
	sort.Strings(ss)
	return strings.Join(ss, " | ")
}

// c11tcp: on a real TCP connection the replies to the complete requests are DELIVERED, not only written: a client
// sends four ECHO requests with 4 MiB arguments and then a request that is cut off inside, half-closes, and reads
// its replies slowly (so that the server meets the cut-off request while replies are still in its send queue). It
// must receive every reply byte and then the end of the stream - a reset that discards queued replies loses answers
// to requests that were received completely.
func c11tcp(idx int) run.Result {
	var res run.Result
	res.Idx = idx
	res.Classes = []string{"tcp:large-replies-queued-when-the-cut-request-is-met"}
	res.Key = gen.Hash64([]byte(fmt.Sprint("c11tcp", idx)))
	res.NonTrivial = true
	r := rng.New(c11.seed, rng.Str("C11tcp"), uint64(idx))
	rec := double.NewRec()
	srv := newServer(rec)
	port := 0
	for attempt := 0; attempt < 10 && port == 0; attempt++ {
		port = freePort()
		srv.SetPort(port)
		if srv.Start() != nil {
			port = 0
		}
	}
	if port == 0 {
		res.Inconclusive = "could not start a listener"
		return res
	}
	defer srv.Stop()
	c, err := net.DialTimeout("tcp", fmt.Sprintf("127.0.0.1:%d", port), 5*time.Second)
	if err != nil {
		res.Inconclusive = "client could not connect"
		return res
	}
	defer c.Close()
	const n, size = 4, 4 << 20
	var stream []byte
	want := 0
	for i := 0; i < n; i++ {
		arg := r.Bytes(size)
		stream = append(stream, resp.Encode(resp.CmdB([]byte("ECHO"), arg))...)
		want += len(resp.Encode(resp.Bulk(arg)))
	}
	cut := rng.Pick(r, []string{"*2\r\n$4\r\nECHO\r\n$5\r\nhel", "*2\r\n$4\r\nECHO\r\n", "*2\r\n$3\r\nGET\r\n$1", "*1\r\n$4\r\nPI"})
	stream = append(stream, cut...)
	go func() {
		c.SetWriteDeadline(time.Now().Add(60 * time.Second))
		c.Write(stream)
		if tc, ok := c.(*net.TCPConn); ok {
			tc.CloseWrite()
		}
	}()
	got := 0
	buf := make([]byte, 32<<10)
	var rerr error
	for {
		sconn.NextSeq()
		c.SetReadDeadline(time.Now().Add(30 * time.Second))
		k, err := c.Read(buf)
		got += k
		if err != nil {
			rerr = err
			break
		}
		if got%(1<<20) < len(buf) {
			time.Sleep(2 * time.Millisecond) // a slow reader (no verdict depends on this)
		}
	}
	res.Count("tcp_reply_bytes_received", int64(got))
	desc := map[string]any{"requests": fmt.Sprintf("%d x ECHO <%d bytes>, then the cut-off request %q, then half-close", n, size, cut), "reply_bytes_expected": want, "reply_bytes_received": got, "read_ended_with": fmt.Sprint(rerr)}
	if ne, ok := rerr.(net.Error); ok && ne.Timeout() {
		res.Inconclusive = "watchdog: the replies did not arrive within 30 s"
		return res
	}
	if got != want || rerr != io.EOF {
		res.Violate("C11:tcp:replies-to-complete-requests-lost", "every request fully received before the cut is executed and answered exactly once", fmt.Sprintf("the client received %d of %d reply bytes and then %v", got, want, rerr), desc)
		return res
	}
	if calls := rec.Snapshot(); len(calls) != 0 {
		// ECHO is answered by the framework itself: any handler call stems from the cut-off request
		res.Violate("C11:tcp:partial-request-executed", "a request the stream ends inside is not executed", fmt.Sprintf("handler calls: %v", callStrs(calls)), desc)
	}
	return res
}

func c11run(idx int) run.Result {
	if idx >= c11.nPipe {
		return c11tcp(idx)
	}
	var res run.Result
	res.Idx = idx
	pc := c11get(idx)
	reqs := pc.values()
	stream, ends := encodeReqs(reqs)
	cls := offsetClasses(stream)
	res.Key = gen.Hash64(stream)
	desc := func(extra map[string]any) any {
		m := map[string]any{"requests": reqStrings(reqs), "stream_hex": hexClip(stream, 600), "request_ends": ends}
		for k, v := range extra {
			m[k] = v
		}
		return m
	}
	// reference run: the complete pipeline, one request per chunk
	rec := double.NewRec()
	ref := runPipe(newServer(rec), reqs, chunkAt(stream, ends), sconn.Script{End: sconn.EOF})
	if ref.TimedOut {
		res.Inconclusive = "watchdog"
		return res
	}
	if ref.Panic != "" || ref.Bad != "" || len(ref.Frames) != len(reqs) || len(ref.Snap.WouldBlocks) < len(reqs)+1 {
		res.Violate("C11:reference", "every fully received request is executed and answered exactly once", fmt.Sprintf("complete pipeline: panic=%q bad=%q frames=%d/%d", ref.Panic, ref.Bad, len(ref.Frames), len(reqs)), desc(nil))
		return res
	}
	calls := rec.Snapshot()
	wbs := ref.Snap.WouldBlocks
	groups := make([]string, len(reqs))
	gsize := make([]int, len(reqs))
	for i := range reqs {
		var cs []double.Call
		for _, c := range calls {
			if c.Seq > wbs[i].Seq && c.Seq < wbs[i+1].Seq {
				cs = append(cs, c)
			}
		}
		groups[i] = sortedGroup(cs)
		gsize[i] = len(cs)
	}
	for o := 0; o <= len(stream); o++ {
		q := reqsDelivered(ends, o)
		inside := o > 0 && (q == 0 || ends[q-1] != o) || (o == 0 && false)
		if q > 0 && ends[q-1] == o {
			inside = false
		} else if o > 0 {
			inside = true
		}
		for mode := 0; mode < 4; mode++ {
			// mode 2 = full close: the client has closed both directions, so besides the reads ending the reply
			// writes fail from the k-th on (the first reply after a close may still be accepted by the kernel)
			// mode 3 = half-close where the transport reports the last bytes and the end of stream in ONE read
			ending := []sconn.Ending{sconn.EOF, sconn.Reset, sconn.EOF, sconn.EOF}[mode]
			script := sconn.Script{End: ending}
			endName := ending.String()
			if mode == 2 {
				if q < 2 {
					continue
				}
				script.FailWriteAt, script.FailWriteKeep = 1+o%2, o%4
				// and, as with TLS, closing the transport reports that the peer could not be told
				script.CloseFails = o%3 == 0
				endName = "FULL-CLOSE"
			}
			if mode == 3 {
				if o == 0 {
					continue
				}
				script.EOFWithData = true
				endName = "EOF-with-last-read"
			}
			for _, how := range []string{chWhole, chByte} {
				if how == chByte && (mode >= 2 || o > 300 && o%7 != 0) {
					continue
				}
				var chunks [][]byte
				if how == chWhole {
					chunks = [][]byte{stream[:o]}
				} else {
					chunks = fixedChunks(stream[:o], 1, 0)
				}
				rec2 := double.NewRec()
				srv := newServer(rec2)
				pr := runPipe(srv, reqs, chunks, script)
				res.Count("cut_runs", 1)
				cutClass := "at-request-boundary"
				if inside {
					cutClass = "inside:" + splitName(string(cls[o]))
					res.Keys = append(res.Keys, res.Key^uint64(o)<<20^uint64(mode)<<1^uint64(len(how)))
				}
				res.Count("cut:"+cutClass, 1)
				extra := map[string]any{"cut_offset": o, "ending": endName, "fail_write_at": script.FailWriteAt, "delivery": how, "complete_requests": q, "cut_class": cutClass}
				sig := fmt.Sprintf("C11:%%s:%s:%s", endName, cutClass)
				if pr.TimedOut {
					res.Inconclusive = "watchdog: the connection loop did not return after the stream ended"
					continue
				}
				if pr.Panic != "" {
					res.Violate(fmt.Sprintf(sig, "panic"), "a cut stream ends the connection cleanly", pr.Panic, desc(extra))
					return res
				}
				got := rec2.Snapshot()
				// every recorded call must belong to a request whose last byte was delivered
				// (attribution by the per-request token its arguments carry), and each complete
				// request must have been executed exactly as in the uncut run
				per := make([][]double.Call, len(reqs))
				for _, cl := range got {
					i := tokenOf(cl.Str, idx)
					if i < 0 {
						// token-less call (e.g. SCAN): must be one of the complete requests' calls
						found := false
						for j := 0; j < q; j++ {
							if strings.Contains(groups[j], cl.Str) && len(per[j]) < gsize[j] {
								per[j] = append(per[j], cl)
								found = true
								break
							}
						}
						if found {
							continue
						}
						i = q // not attributable to a complete request
					}
					if i >= q || i >= len(reqs) {
						extra["calls"] = callStrs(got)
						res.Violate(fmt.Sprintf(sig, "partial-request-executed"), "a request that was not received completely is not executed", fmt.Sprintf("%d complete request(s) but the handler was called with arguments of request %d: %s", q, i, cl.Str), desc(extra))
						return res
					}
					per[i] = append(per[i], cl)
				}
				for i := 0; i < q; i++ {
					ok := true
					switch {
					case pc.Reqs[i].V.Class == grammar.Derived:
						ok = (len(per[i]) > 0) == (gsize[i] > 0) // decomposition may depend on map order
					default:
						ok = sortedGroup(per[i]) == groups[i]
					}
					if !ok {
						extra["calls"] = callStrs(got)
						res.Violate(fmt.Sprintf(sig, "missing-execution"), "every request fully received before the cut is executed exactly once", fmt.Sprintf("request %d: expected calls {%s}, recorded %v", i, groups[i], callStrs(per[i])), desc(extra))
						return res
					}
				}
				// replies are exactly those requests' replies
				wantOut := []byte{}
				if q > 0 {
					wantOut = ref.Snap.Out[:ref.FrameEnds[q-1]]
				}
				if mode == 2 {
					res.Count("full_close_runs", 1)
					if !bytes.HasPrefix(wantOut, pr.Snap.Out) {
						extra["out_hex"] = hexClip(pr.Snap.Out, 300)
						res.Violate(fmt.Sprintf(sig, "replies"), "exactly the fully received requests are answered, once each", "what was written before the writes failed is not a prefix of those requests' replies", desc(extra))
						return res
					}
				} else if !bytes.Equal(pr.Snap.Out, wantOut) {
					// a parser error may legitimately add nothing; anything else is wrong
					extra["out_hex"] = hexClip(pr.Snap.Out, 300)
					extra["want_hex"] = hexClip(wantOut, 300)
					res.Violate(fmt.Sprintf(sig, "replies"), "exactly the fully received requests are answered, once each", fmt.Sprintf("%d bytes written, expected the %d bytes of the first %d replies", len(pr.Snap.Out), len(wantOut), q), desc(extra))
					return res
				}
				// release: loop returned, connection closed, registry empty
				if !pr.Returned || !pr.Snap.Closed || len(srv.Conns()) != 0 {
					res.Violate(fmt.Sprintf(sig, "release"), "after the cut the connection is released: its goroutine ends and it leaves the registry", fmt.Sprintf("returned=%v closed=%v registry=%d", pr.Returned, pr.Snap.Closed, len(srv.Conns())), desc(extra))
					return res
				}
			}
		}
	}
	res.NonTrivial = false
	if idx%17 == 0 {
		res.Sample = desc(map[string]any{"cut_points": len(stream) + 1})
	}
	return res
}

var _ = redis.NewServer

func init() {
	run.Register(&run.Prop{
		ID: "C11", Level: "fault_enumeration",
		Rule: func(tier string) string {
			return "case = one pipeline of 1..5 valid requests (request 0 rotates over every grammar entry; in a third of the pipelines half of the requests carry their last argument as a simple-string or integer line instead of a bulk string) and EVERY byte offset of its encoding as the point where the stream ends, x {half-close (reads return EOF, writes succeed), reset, full close (reads return EOF and the reply writes fail from the first or second on, and in a third of these runs closing the transport reports an error as a TLS close does when the alert cannot be sent; only where >= 2 requests are complete)} and half-close with the last bytes and the end of stream reported by one read} x {prefix delivered whole, 1-byte chunks}; complete per pipeline. Oracle (differential against the uncut run of the same pipeline): recorded handler calls are exactly the calls of the requests whose last byte was delivered (per-request multiset, in request order), the bytes written are exactly those requests' replies, the connection loop returned, the connection was closed and Server.Conns() is empty. Plus 4 (thorough 40) cases on a real TCP connection: four ECHO requests with 4 MiB arguments and a cut-off request, half-close, a slow reader - every reply byte and then the end of the stream must arrive (a reset that discards queued replies loses answers to complete requests). distinct_nontrivial = distinct (pipeline, offset, ending, delivery) with the cut strictly inside a request; counters cut:* classify where the cut fell"
		},
		Exhaustive:  func(string) bool { return false },
		Assumptions: []string{"the scripted connection delivers all bytes before the cut even when the ending is a reset (a real RST may discard unread data; then fewer requests are complete)"},
		Setup: func(tier string, seed uint64) int {
			c11.seed, c11.tier = seed, tier
			c11.nPipe = map[string]int{"quick": 240, "thorough": 20000}[tier]
			return c11.nPipe + map[string]int{"quick": 4, "thorough": 40}[tier]
		},
		Run: c11run,
		Describe: func(idx int) any {
			if idx >= c11.nPipe {
				return map[string]any{"sig": "tcp", "idx": idx}
			}
			pc := c11get(idx)
			return map[string]any{"sig": cmdName(pc.Reqs[0].Req), "requests": reqStrings(pc.values())}
		},
		Chunk:         4,
		MinConclusive: 50,
	})
}
