package main

import (
	"crypto/tls"
	"crypto/x509"
	"crypto/x509/pkix"
	"fmt"
	"io"
	"net"
	"os"
	"path/filepath"
	"strings"
	"sync"
	"time"

	"github.com/cybergarage/go-redis/redis"
	"github.com/cybergarage/go-redis/redis/auth"
	"verif/double"
	"verif/gen"
	"verif/pki"
	"verif/resp"
	"verif/rng"
	"verif/run"
	"verif/sconn"
)

const c09name = "verif-client"

var c09 struct {
	seed   uint64
	tier   string
	scen   []c09scen
	once   sync.Once
	p      *pki.PKI
	nSweep int
}

type c09scen struct {
	Config   string // no-rule | cn-rule | cn-rule+password
	Client   string // a credential kind, or plain-text | abort-after-hello | stall | garbage
	Position string // before | between | after
	Rep      int
}

// resuming clients: every credential once more as a client that keeps a TLS session cache and connects three
// times (the second and third handshakes resume the session of the first; the gate must not depend on that)
func c09resuming() []string {
	var out []string
	for _, c := range pki.AllCreds {
		out = append(out, c+"+resume")
	}
	return out
}

var c09clients = append(append(append([]string{}, pki.AllCreds...), c09resuming()...), "plain-text", "abort-after-hello", "stall", "garbage", "stall-x48", "stall-x300", "garbage-x48", "abandon-x200")

func c09pki() *pki.PKI {
	c09.once.Do(func() {
		dir := filepath.Join(run.WorkDir("C09"), fmt.Sprintf("pki-%d", os.Getpid()))
		p, err := pki.New(dir, c09name)
		if err == nil {
			c09.p = p
			// The operating system's trust store of this process holds the FOREIGN CA (and nothing else): only
			// the CA the server is configured with may vouch for clients, whatever the machine trusts otherwise.
			// (Go loads the system pool once, on first use; nothing has used it yet in this child.)
			os.Setenv("SSL_CERT_FILE", p.ForeignCAFile)
			os.Setenv("SSL_CERT_DIR", filepath.Join(dir, "no-such-dir"))
		}
	})
	return c09.p
}

func c09setup(tier string, seed uint64) int {
	c09.seed, c09.tier = seed, tier
	c09.scen = nil
	reps := map[string]int{"quick": 1, "thorough": 25}[tier]
	for rep := 0; rep < reps; rep++ {
		// ~ca-rotated: the server was first started with ANOTHER client CA, stopped, given the CA file and started
		// again (what it trusts is what is configured now); ~app-tls-config: the application hands the server a
		// ready tls.Config that lets clients connect without a certificate (the common-name rule is the gate)
		for _, cfg := range []string{"no-rule", "cn-rule", "cn-rule+password", "no-rule~ca-rotated", "cn-rule~ca-rotated", "cn-rule~app-tls-config"} {
			for _, cl := range c09clients {
				for _, pos := range []string{"before", "between", "after"} {
					c09.scen = append(c09.scen, c09scen{cfg, cl, pos, rep})
				}
			}
		}
	}
	c09.nSweep = map[string]int{"quick": 1000, "thorough": 20000}[tier]
	return len(c09.scen) + c09.nSweep
}

// expectedServed: handshake completed with a chain to the CA and (no rule or leaf CN == name).
func c09expected(cfg, client string) bool {
	client = strings.TrimSuffix(client, "+resume")
	if i := strings.Index(cfg, "~"); i >= 0 {
		cfg = cfg[:i]
	}
	if !pki.ChainsToCA(client) {
		return false
	}
	if cfg == "no-rule" {
		return true
	}
	return client == pki.CredRight
}

type c09server struct {
	srv         *redis.Server
	rec         *double.RecHandler
	plain, tlsP int
	password    bool
}

func c09start(cfg string) (*c09server, error) {
	variant := ""
	if i := strings.Index(cfg, "~"); i >= 0 {
		cfg, variant = cfg[:i], cfg[i+1:]
	}
	p := c09pki()
	if p == nil {
		return nil, fmt.Errorf("pki unavailable")
	}
	for attempt := 0; attempt < 10; attempt++ {
		s := &c09server{rec: double.NewRec()}
		s.srv = newServer(s.rec)
		s.plain, s.tlsP = freePort(), freePort()
		if s.plain == s.tlsP {
			continue
		}
		s.srv.SetPort(s.plain)
		s.srv.SetTLSPort(s.tlsP)
		if err := s.srv.SetTLSCertFile(p.CertFile); err != nil {
			return nil, err
		}
		s.srv.SetTLSKeyFile(p.KeyFile)
		s.srv.SetTLSCaCertFile(p.CAFile)
		switch variant {
		case "ca-rotated":
			s.srv.SetTLSCaCertFile(p.ForeignCAFile)
		case "app-tls-config":
			pool := x509.NewCertPool()
			pool.AddCert(p.CA.Cert)
			pair, err := tls.X509KeyPair(p.Server.CertPEM(), p.Server.KeyPEM())
			if err != nil {
				return nil, err
			}
			s.srv.SetTLSConfig(&tls.Config{MinVersion: tls.VersionTLS12, Certificates: []tls.Certificate{pair}, ClientCAs: pool, ClientAuth: tls.VerifyClientCertIfGiven})
		}
		if cfg != "no-rule" {
			s.srv.AddAuthenticator(auth.NewCertificateAuthenticatorWith(auth.WithCommonName(c09name)))
		}
		if cfg == "cn-rule+password" {
			s.srv.SetRequirePass(c08pass)
			s.password = true
		}
		if err := s.srv.Start(); err == nil {
			if variant == "ca-rotated" {
				if err := s.srv.Stop(); err != nil {
					return nil, err
				}
				s.srv.SetTLSCaCertFile(p.CAFile)
				if err := s.srv.Start(); err != nil {
					return nil, err
				}
			}
			return s, nil
		}
	}
	return nil, fmt.Errorf("could not start")
}

// goodTLS: a client with the right certificate must handshake and get its GET through to the handler.
func (s *c09server) goodTLS(tok string) string {
	sconn.NextSeq()
	d := &net.Dialer{Timeout: 5 * time.Second}
	c, err := tls.DialWithDialer(d, "tcp", fmt.Sprintf("127.0.0.1:%d", s.tlsP), c09pki().ClientConfig(pki.CredRight))
	if err != nil {
		return "valid TLS client: " + err.Error()
	}
	defer c.Close()
	t := &tcpClient{c: c}
	if s.password {
		if v, err := t.do("AUTH", c08pass); err != nil || !resp.Equal(v, resp.Status("OK")) {
			return fmt.Sprintf("valid TLS client: AUTH answered %v %v", v, err)
		}
	}
	v, err := t.do("GET", tok)
	if err != nil || v.IsErr() {
		return fmt.Sprintf("valid TLS client: GET answered %v %v", v, err)
	}
	return ""
}

func (s *c09server) goodPlain() string {
	c, err := dialSrv(s.plain)
	if err != nil {
		return "plain client: " + err.Error()
	}
	defer c.c.Close()
	if _, err := c.do("PING"); err != nil {
		return "plain client: PING: " + err.Error()
	}
	return ""
}

// closeAfterFirstWrite closes the connection once the first record (the ClientHello) was written.
type closeAfterFirstWrite struct {
	net.Conn
	wrote bool
}

func (c *closeAfterFirstWrite) Write(p []byte) (int, error) {
	n, err := c.Conn.Write(p)
	if !c.wrote {
		c.wrote = true
		c.Conn.Close()
	}
	return n, err
}

// faulty plays the client under test; it returns a function that ends it (for stall) and what the client observed.
func (s *c09server) faulty(kind, tok string) (end func(), reply string) {
	sconn.NextSeq()
	addr := fmt.Sprintf("127.0.0.1:%d", s.tlsP)
	end = func() {}
	switch kind {
	case "plain-text":
		c, err := net.DialTimeout("tcp", addr, 5*time.Second)
		if err != nil {
			return end, "dial: " + err.Error()
		}
		c.SetDeadline(time.Now().Add(2 * time.Second))
		c.Write(resp.Encode(resp.Cmd("GET", tok)))
		b, _ := io.ReadAll(c)
		c.Close()
		return end, fmt.Sprintf("%d bytes back", len(b))
	case "garbage":
		c, err := net.DialTimeout("tcp", addr, 5*time.Second)
		if err != nil {
			return end, "dial: " + err.Error()
		}
		c.SetDeadline(time.Now().Add(2 * time.Second))
		c.Write([]byte("\x16\x03\x01\xff\xff garbage \x00\x01\x02"))
		c.Write(gen.BulkPayload(rng.New(1, rng.Str(tok)), 300))
		c.Close()
		return end, "sent garbage"
	case "abort-after-hello":
		c, err := net.DialTimeout("tcp", addr, 5*time.Second)
		if err != nil {
			return end, "dial: " + err.Error()
		}
		tc := tls.Client(&closeAfterFirstWrite{Conn: c}, c09pki().ClientConfig(pki.CredRight))
		tc.SetDeadline(time.Now().Add(2 * time.Second))
		err = tc.Handshake()
		c.Close()
		return end, fmt.Sprintf("aborted: %v", err)
	case "stall":
		c, err := net.DialTimeout("tcp", addr, 5*time.Second)
		if err != nil {
			return end, "dial: " + err.Error()
		}
		return func() { c.Close() }, "connected, sending nothing"
	case "abandon-x200":
		// 200 clients one after the other that give their handshake up: close at once, close after half a
		// ClientHello, reset at once, abort after a whole ClientHello
		n := 0
		for i := 0; i < 200; i++ {
			sconn.NextSeq()
			c, err := net.DialTimeout("tcp", addr, 5*time.Second)
			if err != nil {
				break
			}
			n++
			switch i % 4 {
			case 1:
				c.Write([]byte("\x16\x03\x01\x02\x00\x01\x00\x01\xfc\x03\x03"))
			case 2:
				if tc, ok := c.(*net.TCPConn); ok {
					tc.SetLinger(0)
				}
			case 3:
				tc := tls.Client(&closeAfterFirstWrite{Conn: c}, c09pki().ClientConfig(pki.CredRight))
				tc.SetDeadline(time.Now().Add(2 * time.Second))
				tc.Handshake()
			}
			c.Close()
		}
		return end, fmt.Sprintf("%d handshakes abandoned", n)
	case "stall-x48", "stall-x300", "garbage-x48":
		// many clients at once: stalled (connected, nothing sent, kept open) or sending garbage
		n := 48
		if kind == "stall-x300" {
			n = 300
		}
		var cs []net.Conn
		for i := 0; i < n; i++ {
			c, err := net.DialTimeout("tcp", addr, 5*time.Second)
			if err != nil {
				break
			}
			if kind == "garbage-x48" {
				c.Write([]byte("\x16\x03\x01\x00\x05hello"))
			}
			cs = append(cs, c)
		}
		return func() {
			for _, c := range cs {
				c.Close()
			}
		}, fmt.Sprintf("%d connections held open", len(cs))
	}
	if strings.HasSuffix(kind, "+resume") {
		cfg := c09pki().ClientConfig(strings.TrimSuffix(kind, "+resume")).Clone()
		cfg.ClientSessionCache = tls.NewLRUClientSessionCache(8)
		var obs []string
		resumed := 0
		for k := 0; k < 3; k++ {
			d := &net.Dialer{Timeout: 5 * time.Second}
			c, err := tls.DialWithDialer(d, "tcp", addr, cfg)
			if err != nil {
				obs = append(obs, "handshake refused: "+err.Error())
				continue
			}
			if c.ConnectionState().DidResume {
				resumed++
			}
			t := &tcpClient{c: c}
			c.SetDeadline(time.Now().Add(5 * time.Second))
			if s.password {
				t.do("AUTH", c08pass)
			}
			// the read also lets the client process a session ticket sent after the handshake
			v, err := t.do("GET", tok)
			if err != nil {
				obs = append(obs, "disconnected: "+err.Error())
			} else {
				obs = append(obs, "reply: "+v.String())
			}
			c.Close()
		}
		return end, fmt.Sprintf("%d of 3 handshakes resumed a session; %s", resumed, strings.Join(obs, " | "))
	}
	// a complete handshake attempt with the credential
	d := &net.Dialer{Timeout: 5 * time.Second}
	c, err := tls.DialWithDialer(d, "tcp", addr, c09pki().ClientConfig(kind))
	if err != nil {
		return end, "handshake refused: " + err.Error()
	}
	defer c.Close()
	t := &tcpClient{c: c}
	c.SetDeadline(time.Now().Add(5 * time.Second))
	if s.password {
		if v, err := t.do("AUTH", c08pass); err != nil {
			return end, "AUTH: " + err.Error()
		} else if v.IsErr() {
			return end, "AUTH refused: " + v.String()
		}
	}
	v, err := t.do("GET", tok)
	if err != nil {
		return end, "disconnected: " + err.Error()
	}
	return end, "reply: " + v.String()
}

func c09run(idx int) run.Result {
	if idx >= len(c09.scen) {
		return c09sweep(idx)
	}
	var res run.Result
	res.Idx = idx
	sc := c09.scen[idx]
	res.Classes = []string{"scenario", "config:" + sc.Config, "client:" + sc.Client}
	res.Key = gen.Hash64([]byte(fmt.Sprint(sc)))
	res.NonTrivial = true
	s, err := c09start(sc.Config)
	if err != nil {
		res.Inconclusive = "server did not start: " + err.Error()
		return res
	}
	defer s.srv.Stop()
	desc := map[string]any{"config": sc.Config, "client": sc.Client, "position": sc.Position}
	sig := fmt.Sprintf("C09:%%s:%s:%s:%s", sc.Config, sc.Client, sc.Position)
	tok := fmt.Sprintf("tok-faulty-%d", idx)
	good := 0
	runGood := func(stage string) bool {
		good++
		if why := s.goodTLS(fmt.Sprintf("tok-good-%d-%d", idx, good)); why != "" {
			dumpN, dump := serverGoroutines()
			// structural witness: the TLS accept loop is gone, or exists but is not parked in Accept
			// (inside a handshake, waiting for a slot, a lock, ...), so it cannot be accepting anybody
			tlsLoopAccepting, tlsLoopExists := false, false
			for _, g := range strings.Split(dump, "\n\n") {
				if strings.Contains(g, "(*Server).tlsServe(") {
					tlsLoopExists = true
					if strings.Contains(g, ".Accept(") {
						tlsLoopAccepting = true
					}
				}
			}
			if strings.Contains(why, "refused") || !tlsLoopExists || !tlsLoopAccepting || dumpN == 0 {
				res.Violate(fmt.Sprintf(sig, "containment-tls"), "a failed, stalled or abandoned handshake affects only that client: the TLS listener keeps accepting and serving other clients", fmt.Sprintf("%s: %s\nserver goroutines:\n%s", stage, why, clipS(dump, 1800)), desc)
			} else if strings.Contains(why, "remote error: tls:") {
				// the server itself refused the certificate with a TLS alert: no timing involved
				res.Violate(fmt.Sprintf(sig, "gate-closed-good-client"), "a client with a certificate chaining to the configured CA (and the right name) is served", fmt.Sprintf("%s: %s", stage, why), desc)
			} else {
				res.Inconclusive = "valid client not served but no structural witness: " + why
			}
			return false
		}
		if why := s.goodPlain(); why != "" {
			res.Violate(fmt.Sprintf(sig, "containment-plain"), "a failed handshake affects only that client: the plain listener keeps accepting and serving", stage+": "+why, desc)
			return false
		}
		return true
	}
	var end func()
	var observed string
	fdBefore := 0
	play := func() {
		fdBefore = fdCount()
		end, observed = s.faulty(sc.Client, tok)
		desc["client_observed"] = observed
	}
	switch sc.Position {
	case "before":
		play()
		if !runGood("after the faulty client") || !runGood("second well-behaved pair") {
			end()
			return res
		}
	case "between":
		if !runGood("before the faulty client") {
			return res
		}
		play()
		if !runGood("after the faulty client (still connected if stalled)") {
			end()
			return res
		}
	case "after":
		if !runGood("first pair") || !runGood("second pair") {
			return res
		}
		play()
		if !runGood("after the faulty client") {
			end()
			return res
		}
	}
	end()
	if sc.Client == "abandon-x200" {
		// an abandoned handshake must not keep anything of the server that other clients need: once the server
		// has come to rest, the sockets of the 200 clients that went away are closed on the server side too
		// (a process that keeps them runs out of descriptors, and then nobody is accepted). Fixed point: no
		// server goroutine is working (all are parked in Accept or waiting for a request).
		deadline := time.Now().Add(watchdog)
		for time.Now().Before(deadline) && (busyServerGoroutines() > 0 || fdCount() > fdBefore+8) {
			sconn.NextSeq()
			time.Sleep(10 * time.Millisecond)
		}
		res.Count("abandoned_handshake_runs", 1)
		if now := fdCount(); now > fdBefore+8 {
			if busyServerGoroutines() == 0 && now >= fdBefore+50 {
				_, dump := serverGoroutines()
				res.Violate(fmt.Sprintf(sig, "abandoned-handshakes-keep-sockets"), "a failed, stalled or abandoned handshake affects only that client", fmt.Sprintf("%s; every client socket is closed and no server goroutine is working, but the server process holds %d descriptors more than before them (%d -> %d): the descriptors other clients need run out\nserver goroutines:\n%s", observed, now-fdBefore, fdBefore, now, clipS(dump, 800)), desc)
			} else {
				res.Inconclusive = fmt.Sprintf("descriptor count did not settle (%d -> %d)", fdBefore, now)
			}
			return res
		}
	}
	// (1) the gate: handler calls for the faulty client's token
	served := false
	for _, c := range s.rec.Snapshot() {
		for _, k := range c.Keys {
			if k == tok {
				served = true
			}
		}
	}
	want := c09expected(sc.Config, sc.Client)
	res.Count("gate_decisions", 1)
	if served && !want {
		res.Violate(fmt.Sprintf(sig, "gate-open"), "commands are executed only for clients that completed a handshake with a certificate chaining to the configured CA and whose own (leaf) certificate carries the configured common name", fmt.Sprintf("the handler was invoked for client %q under configuration %q (client observed: %s)", sc.Client, sc.Config, observed), desc)
		return res
	}
	if !served && want {
		res.Violate(fmt.Sprintf(sig, "gate-closed"), "a client with a valid certificate (and the right name) is served", fmt.Sprintf("client %q under %q was not served (client observed: %s)", sc.Client, sc.Config, observed), desc)
		return res
	}
	if !want && strings.HasPrefix(observed, "reply: ") && !strings.HasPrefix(observed, "reply: -") {
		res.Violate(fmt.Sprintf(sig, "gate-reply"), "every other client is disconnected before any command is executed", "non-error reply to a client outside the table: "+observed, desc)
		return res
	}
	res.Sample = desc
	return res
}

// c09sweep: the certificate rule driven in-process through hook H1 with fabricated connection states.
func c09sweep(idx int) run.Result {
	var res run.Result
	res.Idx = idx
	r := rng.New(c09.seed, rng.Str("C09sweep"), uint64(idx))
	n := r.Intn(4) // peer certificates
	names := make([]string, n)
	for i := range names {
		names[i] = rng.Pick(r, []string{c09name, "other", "", c09name + "x", "VERIF-CLIENT", c09name[:5]})
	}
	rule := r.Chance(3, 4)
	res.Classes = []string{"fabricated-state"}
	res.Key = gen.Hash64([]byte(fmt.Sprint(names, rule)))
	res.NonTrivial = n >= 2 || !rule
	rec := double.NewRec()
	srv := newServer(rec)
	if rule {
		srv.AddAuthenticator(auth.NewCertificateAuthenticatorWith(auth.WithCommonName(c09name)))
	}
	st := &tls.ConnectionState{HandshakeComplete: true}
	for _, nm := range names {
		st.PeerCertificates = append(st.PeerCertificates, &x509.Certificate{Subject: pkix.Name{CommonName: nm}})
	}
	conn := sconn.New(sconn.Script{Chunks: [][]byte{resp.Encode(resp.Cmd("GET", "tok"))}, End: sconn.EOF})
	sr := double.ServeTLS(srv, conn, st, serveWait)
	if sr.TimedOut {
		res.Inconclusive = "watchdog"
		return res
	}
	served := rec.Len() > 0
	want := !rule || (n > 0 && names[0] == c09name)
	desc := map[string]any{"peer_certificate_common_names": names, "cn_rule": rule}
	if served != want {
		pos := "none"
		for i, nm := range names {
			if nm == c09name {
				pos = fmt.Sprint(i)
				break
			}
		}
		res.Violate(fmt.Sprintf("C09:cert-rule:served=%v:name-at=%s", served, pos), "with a common-name rule only a client whose own (leaf) certificate carries that name is served", fmt.Sprintf("peer certificate CNs %q (leaf first), rule=%v: served=%v", names, rule, served), desc)
		return res
	}
	if !served && (!sr.Snap.Closed || len(srv.Conns()) != 0 || len(sr.Snap.Out) != 0) {
		res.Violate("C09:cert-rule:rejected-not-closed", "a rejected client is disconnected before any command is executed", fmt.Sprintf("closed=%v registry=%d output=%d bytes", sr.Snap.Closed, len(srv.Conns()), len(sr.Snap.Out)), desc)
	}
	if idx%211 == 0 {
		res.Sample = desc
	}
	return res
}

func init() {
	run.Register(&run.Prop{
		ID: "C09", PassiveWatchdog: true, Level: "fault_enumeration",
		Rule: func(tier string) string {
			return "the scenario space {no rule, common-name rule, rule + password, no rule / rule after the client CA was replaced across a restart, rule with an application-supplied tls.Config that makes client certificates optional} x {no certificate, self-signed, foreign CA, expired a day ago, expired two seconds ago, valid from in 30 seconds, right CA wrong name, right CA wrong name with the right name as a DNS subject alternative name, right name only on an intermediate, right CA right name, each of these ten once more as a client with a TLS session cache connecting three times (later handshakes resume the first session), plain-text bytes on the TLS port, abort after ClientHello, stall, garbage, 48 and 300 simultaneous stalled connections, 48 simultaneous garbage connections, 200 handshakes abandoned one after the other (closed at once, after half a ClientHello, reset, after a whole ClientHello: once no server goroutine is working the process must not hold their sockets any more)} x position relative to two well-behaved client pairs {before, between, after} = 504 scenarios is enumerated completely (thorough: 25 repetitions), each (in a process whose system trust store holds exactly the foreign CA) against a fresh server configured through the file-based TLS path with a PKI minted at run time, on real loopback sockets. Oracle: (gate) a recording handler keyed by a per-client token: the client is served iff its handshake completes with a chain to the CA and (no rule or its LEAF common name matches); (containment) after the faulty client - and while a stalled one is still connected - a valid TLS client and a plain client must each dial, handshake and be answered; 'valid client not served' is a violation only with a structural witness (dial refused, or the goroutine profile shows the accept loop inside Handshake). Plus an in-process sweep of the certificate rule through hook H1 with fabricated connection states (0..3 peer certificates, the name at each chain position)"
		},
		Exhaustive:    func(string) bool { return true },
		Assumptions:   []string{"handshake faults are produced by a real client over loopback; faults needing control of TCP segmentation inside the handshake are not produced"},
		Setup:         c09setup,
		Run:           c09run,
		Describe:      func(idx int) any { return map[string]any{"sig": "tls", "idx": idx} },
		Chunk:         6,
		MinConclusive: 50,
	})
}
