package main

import (
	"crypto/tls"
	"fmt"
	"runtime"
	"strings"
	"sync"
	"time"

	"github.com/cybergarage/go-redis/redis"
	"github.com/cybergarage/go-redis/redis/auth"
	"verif/double"
	"verif/gen"
	"verif/resp"
	"verif/rng"
	"verif/run"
	"verif/sconn"
)

var c13 struct {
	seed uint64
	tier string
	nSys int
}

// a connection's own program and the handler calls it must produce
type c13prog struct {
	Tag    string
	Reqs   []resp.Value
	Expect []c13exp // static expectation (every well-formed SELECT succeeds); the judge recomputes it from the replies
	Steps  []c13step
}
type c13exp struct {
	Method string
	DB     int
	// the credentials the connection holds: those of its last SUCCESSFUL AUTH (none before)
	User, Pass string
	HasPw      bool
}

// c13step is one request of a program as the shadow sees it. What a SELECT or AUTH does to the connection's
// state is decided by its REPLY (the state changes only through the connection's own successful commands).
type c13step struct {
	Kind   string // select-int | select-bad | auth-right | auth-wrong | other | call
	N      int
	Method string
	User   string // AUTH: the credentials presented
	Pass   string
}

// c13soft: the server of this case requires no password (connections start authorized) but has an application
// authenticator that refuses wrong credentials the quiet way - (false, nil) instead of an error. A refused AUTH
// must leave an authorized connection authorized.
var c13soft bool

type softAuthenticator struct{}

func (softAuthenticator) Authenticate(conn auth.Conn) (bool, error) {
	if u, ok := conn.UserName(); ok && u != "" {
		return false, nil
	}
	if p, ok := conn.Password(); ok && p != c08pass {
		return false, nil
	}
	return true, nil
}

func c13program(r *rng.R, tag string, n int, password bool) c13prog {
	p := c13prog{Tag: tag}
	db := 0
	authed := !password
	key := func() string { return tag + ":k" + fmt.Sprint(r.Intn(3)) }
	for i := 0; i < n; i++ {
		switch r.Intn(10) {
		case 0, 1:
			d := rng.Pick(r, []int{0, 1, 2, 3, 7, 15, 0, 1, 2, 3, 7, 15, -1, -7, 16, 1000000, 2147483647, 9223372036854775807})
			p.Reqs = append(p.Reqs, resp.Cmd("SELECT", fmt.Sprint(d)))
			p.Steps = append(p.Steps, c13step{Kind: "select-int", N: d})
			if authed {
				db = d
			}
		case 2:
			if r.Chance(1, 3) {
				// a SELECT with arguments behind the index: whether it is accepted or refused, the database
				// follows the reply (a refused command changes nothing)
				d := rng.Pick(r, []int{0, 1, 2, 3, 7, 15})
				p.Reqs = append(p.Reqs, resp.Cmd("SELECT", fmt.Sprint(d), rng.Pick(r, []string{"junk", "0", ""})))
				p.Steps = append(p.Steps, c13step{Kind: "select-int", N: d})
				if authed {
					db = d
				}
				break
			}
			p.Reqs = append(p.Reqs, resp.Cmd("SELECT", rng.Pick(r, []string{"abc", "", "1.5", "99999999999999999999"})))
			p.Steps = append(p.Steps, c13step{Kind: "select-bad"})
		case 3:
			if password || c13soft {
				if r.Bool() {
					p.Reqs = append(p.Reqs, resp.Cmd("AUTH", c08pass))
					p.Steps = append(p.Steps, c13step{Kind: "auth-right", Pass: c08pass})
					authed = true
				} else if r.Bool() {
					p.Reqs = append(p.Reqs, resp.Cmd("AUTH", rng.Pick(r, []string{"wrong", "", "Secr3"})))
					p.Steps = append(p.Steps, c13step{Kind: "auth-wrong"})
				} else {
					p.Steps = append(p.Steps, c13step{Kind: "auth-wrong"})
					// two-argument form with a wrong user name (right or wrong password): refused, changes nothing
					p.Reqs = append(p.Reqs, resp.Cmd("AUTH", rng.Pick(r, []string{"admin", "alice"}), rng.Pick(r, []string{c08pass, "wrong"})))
				}
			} else {
				p.Reqs = append(p.Reqs, resp.Cmd("PING"))
				p.Steps = append(p.Steps, c13step{Kind: "other"})
			}
		default:
			type op struct {
				args   []string
				method string
			}
			k := key()
			o := rng.Pick(r, []op{
				{[]string{"GET", k}, "Get"}, {[]string{"SET", k, "v"}, "Set"}, {[]string{"HGET", k, "f"}, "HGet"}, {[]string{"LLEN", k}, "LLen"},
				{[]string{"SADD", k, "m"}, "SAdd"}, {[]string{"TYPE", k}, "Type"}, {[]string{"ZSCORE", k, "m"}, "ZScore"}, {[]string{"DEL", k}, "Del"},
			})
			p.Reqs = append(p.Reqs, resp.Cmd(o.args...))
			p.Steps = append(p.Steps, c13step{Kind: "call", Method: o.method})
			if authed {
				p.Expect = append(p.Expect, c13exp{Method: o.method, DB: db})
			}
		}
	}
	return p
}

var c13late bool

func c13server(password bool, rec *double.RecHandler) *redis.Server {
	srv := newServer(rec)
	if c13soft {
		srv.AddAuthenticator(softAuthenticator{})
	}
	if password && c13late {
		srv.SetRequirePass(c08pass)
	} else if password {
		srv.SetRequirePass(c08pass)
		srv.AddAuthenticator(auth.NewClearTextPasswordAuthenticatorWith("", c08pass))
	}
	return srv
}

func tagOf(c double.Call) string {
	for _, k := range c.Keys {
		if i := strings.Index(k, ":"); i > 0 {
			return k[:i]
		}
	}
	return "?"
}

// c13judge checks every recorded call against the shadow of the tag it carries.
// c13shadow walks a program with the replies the connection received: a SELECT changes the database iff it was
// answered +OK, an AUTH authorizes iff it was answered +OK. Returns the handler calls that must have happened.
func c13shadow(p c13prog, out []byte, password bool) (exp []c13exp, problem string) {
	frames, _, rest, bad, _ := resp.DecodeAll(out)
	if bad != "" || rest != 0 || len(frames) != len(p.Reqs) {
		return nil, fmt.Sprintf("connection %s: %d requests, %d reply frames (rest=%d bad=%q)", p.Tag, len(p.Reqs), len(frames), rest, bad)
	}
	ok := resp.Status("OK")
	db, authed := 0, !password
	user, pass, hasPw := "", "", false
	for i, st := range p.Steps {
		f := frames[i]
		switch st.Kind {
		case "select-int":
			switch {
			case resp.Equal(f, ok):
				if !authed {
					return nil, fmt.Sprintf("connection %s request %d: SELECT answered +OK on an unauthorized connection", p.Tag, i)
				}
				db = st.N
			case !f.IsErr():
				return nil, fmt.Sprintf("connection %s request %d: SELECT %d answered %s", p.Tag, i, st.N, clipS(f.String(), 80))
			}
		case "select-bad":
			if !f.IsErr() {
				return nil, fmt.Sprintf("connection %s request %d: ill-formed SELECT answered %s", p.Tag, i, clipS(f.String(), 80))
			}
		case "auth-right", "auth-wrong":
			if resp.Equal(f, ok) {
				if st.Kind == "auth-wrong" {
					return nil, fmt.Sprintf("connection %s request %d: a wrong AUTH was answered +OK", p.Tag, i)
				}
				authed = true
				user, pass, hasPw = st.User, st.Pass, true
			} else if st.Kind == "auth-right" {
				return nil, fmt.Sprintf("connection %s request %d: AUTH with the exact password answered %s", p.Tag, i, clipS(f.String(), 80))
			}
		case "call":
			if authed {
				exp = append(exp, c13exp{st.Method, db, user, pass, hasPw})
			}
		}
	}
	return exp, ""
}

func c13judge(res *run.Result, progs []c13prog, outs [][]byte, calls []double.Call, password bool, desc func() any) bool {
	progs = append([]c13prog{}, progs...)
	for i := range progs {
		exp, problem := c13shadow(progs[i], outs[i], password)
		if problem != "" {
			res.Violate("C13:replies:"+fmt.Sprint(password), "each connection's commands are answered according to its own state", problem, desc())
			return false
		}
		for j := range exp {
			if j >= len(progs[i].Expect) || exp[j].DB != progs[i].Expect[j].DB || exp[j].Method != progs[i].Expect[j].Method {
				res.Count("expectations_decided_by_a_refused_select", 1)
				break
			}
		}
		progs[i].Expect = exp
	}
	byTag := map[string][]double.Call{}
	var order []string
	for _, c := range calls {
		t := tagOf(c)
		byTag[t] = append(byTag[t], c)
		order = append(order, t)
	}
	res.AddSet("interleavings", fmt.Sprintf("%016x", gen.Hash64([]byte(strings.Join(order, ",")))))
	uuids := map[string]string{}
	for _, p := range progs {
		cs := byTag[p.Tag]
		if len(cs) != len(p.Expect) {
			res.Violate("C13:calls:"+fmt.Sprint(password), "each connection's commands run exactly once with its own state", fmt.Sprintf("connection %s: expected %d handler calls, recorded %d", p.Tag, len(p.Expect), len(cs)), desc())
			return false
		}
		for i, c := range cs {
			e := p.Expect[i]
			what := ""
			switch {
			case c.Method != e.Method:
				what = fmt.Sprintf("method %s, expected %s", c.Method, e.Method)
			case c.DB != e.DB:
				what = fmt.Sprintf("conn.Database()=%d, this connection's own SELECT history says %d", c.DB, e.DB)
			case !c.Auth:
				what = "IsAuthrized()=false inside a handler call"
			case c.User != e.User || c.Pass != e.Pass || c.HasPw != e.HasPw:
				what = fmt.Sprintf("credentials=(%q,%q,presented=%v) seen by the handler, but this connection's last successful AUTH carried (%q,%q,presented=%v)", c.User, c.Pass, c.HasPw, e.User, e.Pass, e.HasPw)
			case c.UData != int64(i+1):
				what = fmt.Sprintf("per-connection user data counter=%d, this connection made %d calls", c.UData, i+1)
			case i > 0 && c.Conn != cs[0].Conn:
				what = fmt.Sprintf("connection UUID changed from %s to %s", cs[0].Conn, c.Conn)
			}
			if what != "" {
				kind := strings.SplitN(what, "=", 2)[0]
				res.Violate("C13:state:"+strings.SplitN(kind, " ", 2)[0], "the database, authorization and user data a handler sees are those of the connection the request arrived on", fmt.Sprintf("connection %s call %d (%s): %s", p.Tag, i+1, c.Str, what), desc())
				return false
			}
		}
		if len(cs) > 0 {
			if prev, dup := uuids[cs[0].Conn]; dup {
				res.Violate("C13:uuid-shared", "connections are distinct objects", fmt.Sprintf("connections %s and %s share UUID %s", prev, p.Tag, cs[0].Conn), desc())
				return false
			}
			uuids[cs[0].Conn] = p.Tag
		}
	}
	res.Count("handler_calls_checked", int64(len(calls)))
	return true
}

func c13run(idx int) run.Result {
	var res run.Result
	res.Idx = idx
	r := rng.New(c13.seed, rng.Str("C13"), uint64(idx))
	// 0,1: no password; 2: requirepass; 3: no password + quietly refusing authenticator; 4: requirepass set
	// through the configuration only (as CONFIG SET or SetRequirePass on a running server do: the framework
	// registers the matching authenticator itself when the first AUTH arrives)
	mode := r.Intn(5)
	password := mode == 2 || mode == 4
	c13soft = mode == 3
	c13late = mode == 4
	rec := double.NewRec()
	if idx < c13.nSys {
		// systematic: two connections in lock-step, all interleavings of two 4-request programs
		res.Classes = []string{"systematic-2conn"}
		pa := c13program(r, "c0", 4, password)
		pb := c13program(r, "c1", 4, password)
		desc := func() any {
			return map[string]any{"kind": "systematic", "password": password, "c0": reqStrings(pa.Reqs), "c1": reqStrings(pb.Reqs)}
		}
		res.Key = gen.Hash64([]byte(fmt.Sprint(reqStrings(pa.Reqs), reqStrings(pb.Reqs), password)))
		res.NonTrivial = true
		// enumerate all 70 merges of 4+4
		var orders [][]int
		var rec2 func(a, b int, cur []int)
		rec2 = func(a, b int, cur []int) {
			if a == 4 && b == 4 {
				orders = append(orders, append([]int{}, cur...))
				return
			}
			if a < 4 {
				rec2(a+1, b, append(cur, 0))
			}
			if b < 4 {
				rec2(a, b+1, append(cur, 1))
			}
		}
		rec2(0, 0, nil)
		for _, ord := range orders {
			rec = double.NewRec()
			srv := c13server(password, rec)
			conns := []*sconn.Conn{sconn.New(sconn.Script{End: sconn.Hold}), sconn.New(sconn.Script{End: sconn.Hold})}
			waits := []func(time.Duration) double.ServeResult{double.Start(srv, conns[0], nil), double.Start(srv, conns[1], nil)}
			pos := []int{0, 0}
			progs := []c13prog{pa, pb}
			timedOut := false
			for _, who := range ord {
				conns[who].Feed(resp.Encode(progs[who].Reqs[pos[who]]))
				pos[who]++
				if conns[who].WaitIdle(serveWait) != nil {
					timedOut = true
				}
			}
			outs := make([][]byte, len(conns))
			for i := range conns {
				conns[i].End(sconn.EOF)
				waits[i](serveWait)
				outs[i] = conns[i].Snapshot().Out
			}
			if timedOut {
				res.Inconclusive = "watchdog"
				return res
			}
			res.Count("lockstep_orders", 1)
			if !c13judge(&res, progs, outs, rec.Snapshot(), password, desc) {
				return res
			}
		}
		if idx%7 == 0 {
			res.Sample = desc()
		}
		return res
	}
	// free-running: 2..8 connections on their own goroutines with yields inside the double
	res.Classes = []string{"free-running"}
	k := 2 + r.Intn(7)
	progs := make([]c13prog, k)
	for i := range progs {
		progs[i] = c13program(r, fmt.Sprintf("c%d", i), 3+r.Intn(12), password)
	}
	desc := func() any {
		m := map[string]any{"kind": "free-running", "password": password, "connections": k}
		for _, p := range progs {
			m[p.Tag] = reqStrings(p.Reqs)
		}
		return m
	}
	res.Key = gen.Hash64([]byte(fmt.Sprint(desc())))
	res.NonTrivial = true
	yr := rng.New(c13.seed, rng.Str("C13y"), uint64(idx))
	var ymu sync.Mutex
	rec.Yield = func() {
		ymu.Lock()
		n := yr.Intn(4)
		ymu.Unlock()
		for i := 0; i < n; i++ {
			runtime.Gosched()
		}
	}
	srv := c13server(password, rec)
	var wg sync.WaitGroup
	timedOut := false
	outs := make([][]byte, len(progs))
	for i := range progs {
		wg.Add(1)
		go func(i int, p c13prog) {
			defer wg.Done()
			stream, ends := encodeReqs(p.Reqs)
			c := sconn.New(sconn.Script{Chunks: chunkAt(stream, ends), End: sconn.EOF})
			// the odd connections arrive the way connections of the TLS port do (no common-name rule is configured,
			// so the certificate check has nothing to refuse): the defaults of a connection do not depend on its port
			var st *tls.ConnectionState
			if i%2 == 1 {
				st = &tls.ConnectionState{HandshakeComplete: true}
			}
			sr := double.ServeTLS(srv, c, st, serveWait)
			if sr.TimedOut {
				timedOut = true
			}
			outs[i] = sr.Snap.Out
		}(i, progs[i])
	}
	wg.Wait()
	if timedOut {
		res.Inconclusive = "watchdog"
		return res
	}
	c13judge(&res, progs, outs, rec.Snapshot(), password, desc)
	if idx%53 == 0 {
		res.Sample = desc()
	}
	return res
}

func init() {
	run.Register(&run.Prop{
		ID: "C13", Level: "exploration",
		Rule: func(tier string) string {
			return "case = 2..8 connections served by one server through hook H1 (children are built with the Go race detector), each running its own program of SELECT n (small, negative and huge indices; ill-formed tokens; surplus arguments), AUTH (right and wrong; two fifths of the cases require a password - half of them only through the configuration, the way CONFIG SET requirepass or SetRequirePass on a running server leave it, so that the framework registers the authenticator when the first AUTH arrives -, another fifth require none but have an application authenticator that refuses wrong credentials with (false, nil) rather than an error) and single-call data commands whose keys carry the issuing connection's tag. In the free-running cases the odd connections carry a TLS connection state, as connections of the TLS port do. Schedules: (systematic) two connections in lock-step under ALL 70 interleavings of two 4-request programs; (free-running) every connection on its own goroutine with seeded Gosched yields inside the handler double. Monitor: every handler call is attributed to the issuing connection by its key tag and must show conn.Database(), IsAuthrized(), conn.UserName()/Password() (the credentials of the connection's last successful AUTH), a per-connection counter kept in the connection's sync.Map and the connection UUID equal to that connection's own command history, where a SELECT or AUTH counts iff its reply was +OK (programs are sequential per connection, so the expectation is exact under any interleaving); UUIDs of different connections differ. Evidence reports distinct observed interleavings (hash of the global call order)"
		},
		Assumptions: []string{"the per-connection user data is observed through the sync.Map embedded in redis.Conn"},
		Setup: func(tier string, seed uint64) int {
			c13.seed, c13.tier = seed, tier
			c13.nSys = map[string]int{"quick": 50, "thorough": 800}[tier]
			return c13.nSys + map[string]int{"quick": 1500, "thorough": 40000}[tier]
		},
		Run:           c13run,
		Describe:      func(idx int) any { return map[string]any{"sig": "c13", "idx": idx} },
		Chunk:         50,
		MinConclusive: 100,
		Race:          true,
	})
}
