package main

import (
	"bytes"
	"context"
	"crypto/tls"
	"encoding/json"
	"fmt"
	"net"
	"os"
	"os/exec"
	"path/filepath"
	"runtime"
	"runtime/debug"
	"runtime/pprof"
	"strconv"
	"strings"
	"sync"
	"sync/atomic"
	"syscall"
	"time"

	"github.com/cybergarage/go-redis/redis"
	"github.com/cybergarage/go-redis/redis/auth"
	"verif/double"
	"verif/gen"
	"verif/pki"
	"verif/resp"
	"verif/rng"
	"verif/run"
	"verif/sched"
	"verif/sconn"
)

var c15 struct {
	seed  uint64
	tier  string
	gated []c15gated
	seqs  []c15seq
	pkiMu sync.Once
	pki   *pki.PKI
}

type c15gated struct {
	Kind      string // restart-vs-loop | stop-vs-accept | stop-vs-unwind
	Listeners string // plain | tls | both
	Plain     string // before | after-open | concurrent   (position of the old plain loop's exit)
	TLS       string
	Rep       int
}

type c15seq struct {
	Calls     []string
	Listeners string
}

const watchdog = 20 * time.Second

func c15pki() *pki.PKI {
	c15.pkiMu.Do(func() {
		dir := filepath.Join(run.WorkDir("C15"), fmt.Sprintf("pki-%d", os.Getpid()))
		p, err := pki.New(dir, "verif-client")
		if err == nil {
			c15.pki = p
		}
	})
	return c15.pki
}

type lcServer struct {
	srv    *redis.Server
	plain  int
	tls    int
	p      *pki.PKI
	rec    *double.RecHandler
	closed int // client sockets this harness has closed (each ends one connection goroutine)
}

func newLcServer(listeners string) *lcServer {
	s := &lcServer{rec: double.NewRec()}
	s.srv = newServer(s.rec)
	s.srv.SetPort(0)
	if listeners == "plain" || listeners == "both" {
		s.plain = freePort()
		s.srv.SetPort(s.plain)
	}
	if listeners == "tls" || listeners == "both" {
		s.p = c15pki()
		if s.p == nil {
			return nil
		}
		s.tls = freePort()
		for s.tls == s.plain {
			s.tls = freePort()
		}
		s.srv.SetTLSPort(s.tls)
		s.srv.SetTLSCertFile(s.p.CertFile)
		s.srv.SetTLSKeyFile(s.p.KeyFile)
		s.srv.SetTLSCaCertFile(s.p.CAFile)
		// a common-name rule: clients of the TLS port with another name complete the handshake and are then refused
		s.srv.AddAuthenticator(auth.NewCertificateAuthenticatorWith(auth.WithCommonName("verif-client")))
	}
	return s
}

func (s *lcServer) dial(tlsPort bool) (*tcpClient, error) {
	sconn.NextSeq() // progress for the child watchdog
	if tlsPort {
		d := &net.Dialer{Timeout: 5 * time.Second}
		c, err := tls.DialWithDialer(d, "tcp", fmt.Sprintf("127.0.0.1:%d", s.tls), s.p.ClientConfig(pki.CredRight))
		if err != nil {
			return nil, err
		}
		return &tcpClient{c: c}, nil
	}
	return dialSrv(s.plain)
}

func (s *lcServer) ports() []bool {
	var out []bool
	if s.plain != 0 {
		out = append(out, false)
	}
	if s.tls != 0 {
		out = append(out, true)
	}
	return out
}

// probeServing: dial + PING on every enabled port.
func (s *lcServer) probeServing() string {
	for _, t := range s.ports() {
		c, err := s.dial(t)
		if err != nil {
			return fmt.Sprintf("dial on the %s port failed: %v", portName(t), err)
		}
		v, err := c.do("PING")
		c.c.Close()
		s.closed++
		if str, ok := strOf(v); err != nil || !ok || str != "PONG" {
			return fmt.Sprintf("PING on the %s port: %v %v", portName(t), v, err)
		}
	}
	return ""
}

func portName(tls bool) string {
	if tls {
		return "TLS"
	}
	return "plain"
}

// probeBindable: after Stop every port can be bound again.
func (s *lcServer) probeBindable() string {
	for _, p := range []int{s.plain, s.tls} {
		if p == 0 {
			continue
		}
		l, err := net.Listen("tcp", fmt.Sprintf("127.0.0.1:%d", p))
		if err != nil {
			// The loopback port space is shared with every other process (and with the ephemeral source ports
			// of outgoing connections): the failure only counts if the listening socket is OURS.
			if !listeningSocketIsOurs(p) {
				continue
			}
			return fmt.Sprintf("port %d cannot be bound after Stop returned: %v (a listening socket on it is still open in the server process)", p, err)
		}
		l.Close()
	}
	return ""
}

func serverGoroutines() (n int, dump string) {
	// Taking a goroutine profile costs CPU (a lot of it in a race build with hundreds of goroutines), and the loops
	// that poll it have deadlines of their own: it counts as progress of the harness for the child watchdog, whose
	// spin verdict is about server code that burns CPU while the harness waits passively.
	sconn.NextSeq()
	var buf bytes.Buffer
	pprof.Lookup("goroutine").WriteTo(&buf, 2)
	for _, g := range strings.Split(buf.String(), "\n\n") {
		if strings.Contains(g, "go-redis/redis.(*Server).serve(") || strings.Contains(g, "go-redis/redis.(*Server).tlsServe(") || strings.Contains(g, "go-redis/redis.(*Server).receive(") {
			n++
			dump += g + "\n\n"
		}
	}
	return
}

// serverGoroutines2 counts goroutines whose stack contains the given frame.
func serverGoroutines2(frame string) (string, int) {
	sconn.NextSeq()
	var buf bytes.Buffer
	pprof.Lookup("goroutine").WriteTo(&buf, 2)
	n := 0
	for _, g := range strings.Split(buf.String(), "\n\n") {
		if strings.Contains(g, frame) {
			n++
		}
	}
	return "", n
}

// waitGoroutines polls until the number of server goroutines drops to base.
// stable non-zero excess over the whole grace window = leak; still moving = inconclusive.
func waitGoroutines(base int) (excess int, dump string) {
	deadline := time.Now().Add(3 * time.Second)
	for {
		n, d := serverGoroutines()
		if n <= base {
			return 0, ""
		}
		if time.Now().After(deadline) {
			return n - base, d
		}
		time.Sleep(5 * time.Millisecond)
	}
}

// clientClosed: the server must have closed this client: a read returns EOF/reset.
func clientClosed(c *tcpClient) bool {
	c.c.SetReadDeadline(time.Now().Add(3 * time.Second))
	buf := make([]byte, 16)
	for {
		_, err := c.c.Read(buf)
		if err != nil {
			if ne, ok := err.(net.Error); ok && ne.Timeout() {
				return false
			}
			return true
		}
	}
}

func c15setup(tier string, seed uint64) int {
	c15.seed, c15.tier = seed, tier
	c15.gated = nil
	reps := map[string]int{"quick": 1, "thorough": 12}[tier]
	pos := []string{"before", "after-open", "concurrent"}
	for rep := 0; rep < reps; rep++ {
		for _, p := range pos {
			c15.gated = append(c15.gated, c15gated{Kind: "restart-vs-loop", Listeners: "plain", Plain: p, Rep: rep})
			c15.gated = append(c15.gated, c15gated{Kind: "restart-vs-loop", Listeners: "tls", TLS: p, Rep: rep})
			for _, q := range pos {
				c15.gated = append(c15.gated, c15gated{Kind: "restart-vs-loop", Listeners: "both", Plain: p, TLS: q, Rep: rep})
			}
		}
		for _, l := range []string{"plain", "tls", "both"} {
			c15.gated = append(c15.gated, c15gated{Kind: "stop-vs-accept", Listeners: l, Rep: rep})
			c15.gated = append(c15.gated, c15gated{Kind: "stop-vs-unwind", Listeners: l, Rep: rep})
			// Stop while a client that has already gone away (reset) is still registered because its handler is busy
			for _, how := range []string{"reset", "fin"} {
				c15.gated = append(c15.gated, c15gated{Kind: "stop-vs-gone-client", Listeners: l, Plain: how, Rep: rep})
			}
		}
		// Restart while a connection has been accepted but its goroutine has not registered it yet
		for _, l := range []string{"plain", "both"} {
			c15.gated = append(c15.gated, c15gated{Kind: "restart-vs-accepted-connection", Listeners: l, Rep: rep})
		}
		// Start that fails half-way (the plain port is bound, the TLS port is taken by somebody else)
		c15.gated = append(c15.gated, c15gated{Kind: "start-fails-in-tls-half", Listeners: "both", Rep: rep})
		// Stop while a client of the TLS port has connected but not finished its handshake
		for _, l := range []string{"tls", "both"} {
			c15.gated = append(c15.gated, c15gated{Kind: "stop-vs-handshaking-client", Listeners: l, Rep: rep})
		}
		// a transient failure of Accept (the process is out of descriptors for a moment) must not end the service
		for _, l := range []string{"plain", "tls", "both"} {
			c15.gated = append(c15.gated, c15gated{Kind: "accept-fails-transiently", Listeners: l, Rep: rep})
		}
		// a failure of Accept with an error the runtime does not call temporary (a pending network error of the
		// connection being accepted, no buffer space, ...), injected into the accept4 system call by strace
		hard := []string{"ENOBUFS", "EPROTO", "EHOSTUNREACH", "EMFILE"}
		if tier == "thorough" {
			hard = append(hard, "ENOMEM", "EPERM", "ENETDOWN", "ENFILE", "EOPNOTSUPP")
		}
		for _, l := range []string{"plain", "tls", "both"} {
			for _, e := range hard {
				c15.gated = append(c15.gated, c15gated{Kind: "accept-fails-hard", Listeners: l, Plain: e, Rep: rep})
			}
		}
		// the port is switched off in the configuration of the RUNNING server (a client's CONFIG SET port 0, or the
		// application's SetPort(0) / SetTLSPort(0) before a Restart that is to come up without it); then Stop
		for _, v := range []struct{ l, how string }{{"plain", "config-set-port-0"}, {"plain", "SetPort(0)"}, {"both", "config-set-port-0"}, {"both", "SetPort(0)"}, {"both", "SetTLSPort(0)"}, {"tls", "SetTLSPort(0)"}} {
			c15.gated = append(c15.gated, c15gated{Kind: "stop-after-port-switched-off", Listeners: v.l, Plain: v.how, Rep: rep})
		}
		// two connections from one client address and port, one to each listener
		c15.gated = append(c15.gated, c15gated{Kind: "same-client-port-on-both-listeners", Listeners: "both", Rep: rep})
		// Start (or Restart) immediately followed by Stop, 40 times, on ONE processor: whatever a lifecycle call
		// starts has not had a chance to run when the next call begins
		for _, l := range []string{"plain", "both"} {
			c15.gated = append(c15.gated, c15gated{Kind: "start-stop-at-once", Listeners: l, Rep: rep})
		}
		// Stop while all registered clients hang up (free-running: Stop's walk over the registry races with the
		// connection goroutines finishing on their own)
		hangups := map[string]int{"quick": 18, "thorough": 60}[tier]
		for k := 0; k < hangups; k++ {
			c15.gated = append(c15.gated, c15gated{Kind: "stop-under-hangup-storm", Listeners: []string{"plain", "tls", "both"}[k%3], Rep: rep*1000 + k})
		}
		// Stop while many clients are connecting (free-running: the window between "is the registry stopped?"
		// and "register" has no schedule point, so it is exercised by repetition)
		storms := map[string]int{"quick": 48, "thorough": 200}[tier]
		for k := 0; k < storms; k++ {
			c15.gated = append(c15.gated, c15gated{Kind: "stop-under-connect-storm", Listeners: []string{"plain", "both"}[k%2], Rep: rep*1000 + k})
		}
	}
	c15.seqs = nil
	maxLen := map[string]int{"quick": 4, "thorough": 6}[tier]
	var rec func(cur []string)
	rec = func(cur []string) {
		if len(cur) > 0 {
			for _, l := range []string{"plain", "both"} {
				c15.seqs = append(c15.seqs, c15seq{Calls: append([]string{}, cur...), Listeners: l})
			}
		}
		if len(cur) == maxLen {
			return
		}
		for _, c := range []string{"Start", "Stop", "Restart"} {
			rec(append(cur, c))
		}
	}
	rec(nil)
	return len(c15.gated) + len(c15.seqs)
}

func c15run(idx int) run.Result {
	if idx < len(c15.gated) {
		return c15runGated(idx, c15.gated[idx])
	}
	return c15runSeq(idx, c15.seqs[idx-len(c15.gated)])
}

func loopPoints(l string) (exit, closed, enter string) {
	if l == "tls" {
		return "tlsServe.exit", "tlsServe.closed", "tlsServe.enter"
	}
	return "serve.exit", "serve.closed", "serve.enter"
}

// startFailsInTLSHalf: the TLS port is held by another socket, so Start fails after the plain port was bound.
// A failed Start promises nothing about serving, but it must not keep the plain port: after it (and after a
// Stop) the port can be bound again, and once the TLS port is free a new Start works and serves.
func startFailsInTLSHalf(idx int, g c15gated) run.Result {
	var res run.Result
	res.Idx = idx
	res.Classes = []string{"gated:" + g.Kind}
	res.Key = gen.Hash64([]byte(fmt.Sprint(g)))
	res.NonTrivial = true
	desc := map[string]any{"scenario": g.Kind, "listeners": g.Listeners, "rep": g.Rep}
	sig := "C15:" + g.Kind
	s := newLcServer(g.Listeners)
	if s == nil {
		res.Inconclusive = "pki unavailable"
		return res
	}
	base, _ := serverGoroutines()
	blocker, err := net.Listen("tcp", fmt.Sprintf("127.0.0.1:%d", s.tls))
	if err != nil {
		res.Inconclusive = "could not occupy the TLS port"
		return res
	}
	// a listener nobody refers to is closed by its finalizer at some later garbage collection: keep the collector
	// out of the way so that the verdict does not depend on when it happens to run
	old := debug.SetGCPercent(-1)
	defer debug.SetGCPercent(old)
	defer func() {
		s.srv.Stop()
		waitGoroutines(base)
	}()
	startErr := s.srv.Start()
	if startErr == nil {
		blocker.Close()
		res.Inconclusive = "Start succeeded although the TLS port was taken"
		return res
	}
	res.Count("failed_starts", 1)
	bindPlain := func() string {
		l, err := net.Listen("tcp", fmt.Sprintf("127.0.0.1:%d", s.plain))
		if err != nil {
			if listeningSocketIsOurs(s.plain) {
				return fmt.Sprintf("port %d cannot be bound: %v (a listening socket on it is still open in the server process)", s.plain, err)
			}
			return ""
		}
		l.Close()
		return ""
	}
	if why := bindPlain(); why != "" {
		blocker.Close()
		res.Violate(sig+":plain-port-kept-after-failed-start", "after Stop returns the ports can be bound again (a Start that failed must not keep a port either)", "Start failed with "+strconv.Quote(startErr.Error())+"; "+why, desc)
		return res
	}
	stopErr := s.srv.Stop()
	blocker.Close()
	if !afterStopReturned(&res, s, sig, stopErr, desc) {
		return res
	}
	if err := s.srv.Start(); err != nil {
		res.Violate(sig+":start-after-failed-start", "after Stop returns the ports can be bound again", "with the TLS port free again Start still fails: "+err.Error(), desc)
		return res
	}
	if why := s.probeServing(); why != "" {
		res.Violate(sig+":not-serving", "after Start returns without error the server accepts and serves connections on every enabled port", why, desc)
	}
	res.Sample = desc
	return res
}

func c15runGated(idx int, g c15gated) run.Result {
	if g.Kind == "start-fails-in-tls-half" {
		return startFailsInTLSHalf(idx, g)
	}
	if g.Kind == "accept-fails-hard" {
		return acceptFailsHard(idx, g)
	}
	if g.Kind == "stop-after-port-switched-off" || g.Kind == "start-stop-at-once" {
		return stopAfterPortOff(idx, g)
	}
	var res run.Result
	res.Idx = idx
	res.Classes = []string{"gated:" + g.Kind}
	res.Key = gen.Hash64([]byte(fmt.Sprint(g)))
	res.NonTrivial = true
	desc := map[string]any{"scenario": g.Kind, "listeners": g.Listeners, "old_plain_loop_exit": g.Plain, "old_tls_loop_exit": g.TLS, "rep": g.Rep}
	sig := fmt.Sprintf("C15:%s:%s:plain=%s,tls=%s", g.Kind, g.Listeners, g.Plain, g.TLS)
	s := newLcServer(g.Listeners)
	if s == nil {
		res.Inconclusive = "pki unavailable"
		return res
	}
	base, _ := serverGoroutines()
	ctl := sched.Install()
	defer ctl.Uninstall()
	if err := s.srv.Start(); err != nil {
		res.Inconclusive = "Start failed: " + err.Error()
		return res
	}
	defer func() {
		ctl.Uninstall()
		s.srv.Stop()
		waitGoroutines(base)
	}()
	loops := []string{}
	if s.plain != 0 {
		loops = append(loops, "plain")
	}
	if s.tls != 0 {
		loops = append(loops, "tls")
	}
	for _, l := range loops {
		_, _, enter := loopPoints(l)
		if !ctl.WaitCount(enter, 1, watchdog) {
			res.Inconclusive = "accept loop did not start"
			return res
		}
	}
	if why := s.probeServing(); why != "" {
		res.Violate(sig+":initial", "after Start returns the server serves on every enabled port", why, desc)
		return res
	}
	res.AddSet("schedules", fmt.Sprint(g.Kind, g.Listeners, g.Plain, g.TLS))
	switch g.Kind {
	case "restart-vs-loop":
		posOf := map[string]string{"plain": g.Plain, "tls": g.TLS}
		var gates []string
		for _, l := range loops {
			e, _, _ := loopPoints(l)
			gates = append(gates, e)
		}
		ctl.Gate(append(gates, "stop.return", "start.opened")...)
		done := make(chan error, 1)
		go func() { done <- s.srv.Restart() }()
		// the old loops reach their exit point as soon as Stop has closed the listeners
		for _, l := range loops {
			e, _, _ := loopPoints(l)
			if !ctl.WaitParked(e, watchdog) {
				res.Inconclusive = "old accept loop did not reach its exit point"
				return res
			}
		}
		closedBefore := map[string]int{}
		for _, l := range loops {
			_, c, _ := loopPoints(l)
			closedBefore[l] = ctl.Count(c)
		}
		releaseLoop := func(l string, wait bool) {
			e, c, _ := loopPoints(l)
			ctl.Release(e)
			if wait {
				ctl.WaitCount(c, closedBefore[l]+1, watchdog)
			}
		}
		// If Stop waits for its accept loops, "the loop exits after Stop returned" is not a
		// schedule this implementation can have: every placement degenerates to "before".
		if !ctl.WaitParked("stop.return", time.Second) {
			res.Count("placements_infeasible_because_stop_joins_accept_loops", 1)
			for _, l := range loops {
				posOf[l] = "before"
			}
		}
		for _, l := range loops {
			if posOf[l] == "before" {
				releaseLoop(l, true)
			}
		}
		if !ctl.WaitParked("stop.return", watchdog) {
			res.Inconclusive = "Restart did not reach stop.return"
			return res
		}
		ctl.Release("stop.return")
		for _, l := range loops {
			if posOf[l] == "concurrent" {
				releaseLoop(l, false)
			}
		}
		if !ctl.WaitParked("start.opened", watchdog) {
			// Start may have failed before opening
			select {
			case err := <-done:
				ctl.Ungate(append(gates, "stop.return", "start.opened")...)
				if err != nil {
					res.Count("restart_returned_error", 1)
					return res
				}
			default:
			}
			res.Inconclusive = "Restart did not reach start.opened"
			return res
		}
		for _, l := range loops {
			if posOf[l] == "after-open" {
				releaseLoop(l, true)
			}
		}
		ctl.Release("start.opened")
		var err error
		select {
		case err = <-done:
		case <-time.After(watchdog):
			res.Inconclusive = "Restart did not return"
			return res
		}
		ctl.Ungate(append(gates, "stop.return", "start.opened")...)
		if err != nil {
			// Restart is allowed to fail; then it promises nothing
			res.Count("restart_returned_error", 1)
			return res
		}
		res.Count("restart_returned_nil", 1)
		// wait for the old loops to have finished, then probe (and probe once more)
		for _, l := range loops {
			_, c, _ := loopPoints(l)
			ctl.WaitCount(c, closedBefore[l]+1, watchdog)
		}
		for round := 0; round < 2; round++ {
			if why := s.probeServing(); why != "" {
				res.Violate(sig+":not-serving", "after Restart returns without error the server accepts and serves on every enabled port, under every scheduling of the previous accept loops' shutdown", why, desc)
				return res
			}
		}
	case "stop-vs-accept":
		c1, err := s.dial(s.plain == 0)
		if err != nil {
			res.Inconclusive = "client could not connect"
			return res
		}
		defer c1.c.Close()
		c1.do("PING")
		ctl.Gate("stop.mid")
		done := make(chan error, 1)
		go func() { done <- s.srv.Stop() }()
		if !ctl.WaitParked("stop.mid", watchdog) {
			res.Inconclusive = "Stop did not reach stop.mid"
			return res
		}
		reg := ctl.Count("conn.registered")
		if s.plain == 0 {
			// TLS port only: a raw TCP connection (no ClientHello yet) made while Stop is between its two phases.
			// The server accepts it, or leaves it in the listen queue; either way, once Stop has returned the
			// client must see the end of the connection. (The collector is kept away: a socket nobody refers to
			// any more would be closed by its finalizer at some later collection.)
			old := debug.SetGCPercent(-1)
			raw, err := net.DialTimeout("tcp", fmt.Sprintf("127.0.0.1:%d", s.tls), 5*time.Second)
			if err != nil {
				debug.SetGCPercent(old)
				ctl.Ungate("stop.mid")
				<-done
				res.Count("dial_during_stop_refused", 1)
				return res
			}
			defer raw.Close()
			// give the accept loop the chance to take the connection while Stop is parked (not a verdict)
			time.Sleep(20 * time.Millisecond)
			ctl.Ungate("stop.mid")
			var stopErr error
			select {
			case stopErr = <-done:
			case <-time.After(watchdog):
				debug.SetGCPercent(old)
				res.Inconclusive = "Stop did not return"
				return res
			}
			closed := clientClosed(&tcpClient{c: raw})
			debug.SetGCPercent(old)
			if !closed {
				res.Violate(sig+":survivor-handshaking", "after Stop returns every client connection has been closed", "a connection made to the TLS port while Stop was between closing the registered connections and closing the listeners saw neither EOF nor reset within 3 s after Stop returned", desc)
				return res
			}
			afterStopReturned(&res, s, sig, stopErr, desc)
			return res
		}
		c2, err := s.dial(s.plain == 0)
		if err != nil {
			// the listener is already closed: nothing to check in this order
			ctl.Ungate("stop.mid")
			<-done
			res.Count("dial_during_stop_refused", 1)
			return res
		}
		defer c2.c.Close()
		// give the server the chance to accept (and possibly register) it while Stop is parked; whether it does is
		// not a verdict - a server may also refuse it at once or leave it in the listen queue
		if ctl.WaitCount("conn.registered", reg+1, 300*time.Millisecond) {
			res.Count("connection_registered_during_stop", 1)
		}
		ctl.Ungate("stop.mid")
		select {
		case <-done:
		case <-time.After(watchdog):
			res.Inconclusive = "Stop did not return"
			return res
		}
		if !clientClosed(c2) {
			res.Violate(sig+":survivor", "after Stop returns every client connection has been closed", "a connection accepted while Stop was between closing the registered connections and closing the listeners is still open and served after Stop returned", desc)
			return res
		}
		if n := len(s.srv.Conns()); n != 0 {
			res.Violate(sig+":registry", "after Stop returns the connection registry is empty", fmt.Sprintf("%d entries", n), desc)
			return res
		}
		if why := s.probeBindable(); why != "" {
			res.Violate(sig+":bind", "after Stop returns the ports can be bound again", why, desc)
			return res
		}
	case "stop-under-connect-storm":
		stopStorm(&res, s, ctl, idx, g.Rep, "C15", desc)
	case "restart-vs-accepted-connection":
		// the accept loop has accepted the client and started its goroutine, which is held at its very first step
		// (schedule point conn.accepted, before it registers); Restart runs to completion meanwhile
		ctl.Gate("conn.accepted")
		c, err := dialSrv(s.plain)
		if err != nil {
			res.Inconclusive = "client could not connect"
			return res
		}
		defer c.c.Close()
		if !ctl.WaitParked("conn.accepted", watchdog) {
			res.Inconclusive = "the connection goroutine did not reach its first schedule point"
			ctl.Ungate("conn.accepted")
			return res
		}
		rerr := s.srv.Restart()
		ctl.Ungate("conn.accepted")
		if rerr != nil {
			res.Inconclusive = "Restart failed: " + rerr.Error()
			return res
		}
		// the connection was accepted before the Stop half of Restart: Stop promises that it has been closed
		c.c.SetDeadline(time.Now().Add(3 * time.Second))
		if _, err := c.c.Write(resp.Encode(resp.Cmd("PING"))); err == nil {
			if v, err := c.read(); err == nil {
				res.Violate("C15:restart-vs-accepted-connection:served-by-the-next-generation:"+g.Listeners, "after Stop returns every client connection has been closed", fmt.Sprintf("a connection accepted before Restart (its goroutine had not registered it yet when the Stop half ran) answered PING with %s after Restart returned: it is registered and served by the restarted server", v), desc)
				return res
			}
		}
		if why := s.probeServing(); why != "" {
			res.Violate(sig+":not-serving", "after Restart returns without error the server accepts and serves on every enabled port", why, desc)
		}
	case "same-client-port-on-both-listeners":
		// One client address:port may hold a connection to EACH listener at the same time (the 4-tuples differ).
		// They are two connections: the registry holds two entries, the end of one leaves the other registered,
		// and Stop closes the one that is left.
		lp := freePort()
		dialFrom := func(port int) (net.Conn, error) {
			d := net.Dialer{Timeout: 5 * time.Second, LocalAddr: &net.TCPAddr{IP: net.IPv4(127, 0, 0, 1), Port: lp},
				Control: func(network, address string, rc syscall.RawConn) error {
					var e error
					rc.Control(func(fd uintptr) { e = syscall.SetsockoptInt(int(fd), syscall.SOL_SOCKET, syscall.SO_REUSEADDR, 1) })
					return e
				}}
			return d.Dial("tcp", fmt.Sprintf("127.0.0.1:%d", port))
		}
		ra, err := dialFrom(s.plain)
		if err != nil {
			res.Inconclusive = "client could not connect from the chosen local port: " + err.Error()
			return res
		}
		a := &tcpClient{c: ra}
		defer ra.Close()
		rb, err := dialFrom(s.tls)
		if err != nil {
			res.Inconclusive = "the second connection from the same local port could not be made: " + err.Error()
			return res
		}
		tb := tls.Client(rb, s.p.ClientConfig(pki.CredRight))
		b := &tcpClient{c: tb}
		defer tb.Close()
		if _, err := a.do("PING"); err != nil {
			res.Inconclusive = "PING on the plain connection failed"
			return res
		}
		if v, err := b.do("PING"); err != nil || !resp.Equal(v, resp.Status("PONG")) {
			res.Violate(sig+":second-connection-not-served", "after Start returns the server accepts and serves connections on every enabled port", fmt.Sprintf("a TLS connection from the local port that also holds a plain connection: PING answered %v %v", v, err), desc)
			return res
		}
		if n := len(s.srv.Conns()); n != 2 {
			res.Violate(sig+":registry-mismatch", "while running, the registry contains exactly the connections currently being served", fmt.Sprintf("2 client sockets (one per listener, same client address and port %d) are open and answered, registry has %d entries", lp, n), desc)
			return res
		}
		// the plain one goes away by reset; its goroutine deregisters it (schedule point, not time)
		before := ctl.Count("conn.deregistered")
		rstClose(a)
		s.closed++
		if !ctl.WaitCount("conn.deregistered", before+1, watchdog) {
			res.Inconclusive = "the reset connection was not deregistered within the watchdog"
			return res
		}
		if v, err := b.do("PING"); err != nil || !resp.Equal(v, resp.Status("PONG")) {
			res.Violate(sig+":survivor-not-served", "the server serves connections until Stop is called", fmt.Sprintf("after the plain connection from the same local port ended, PING on the TLS one: %v %v", v, err), desc)
			return res
		}
		if n := len(s.srv.Conns()); n != 1 {
			res.Violate(sig+":registry-mismatch-after-one-ended", "while running, the registry contains exactly the connections currently being served", fmt.Sprintf("1 client socket is open and answered, registry has %d entries", n), desc)
			return res
		}
		stopErr := s.srv.Stop()
		if !clientClosed(b) {
			res.Violate(sig+":client-open", "after Stop returns every client connection has been closed", "the connection that was left saw neither EOF nor reset within 3 s after Stop returned", desc)
			return res
		}
		s.closed++
		afterStopReturned(&res, s, sig, stopErr, desc)
	case "stop-vs-handshaking-client":
		// a raw TCP connection to the TLS port that sends nothing: the server has accepted it and waits for the
		// ClientHello (structural witness: a goroutine of the server is inside tlsReceive)
		c, err := net.DialTimeout("tcp", fmt.Sprintf("127.0.0.1:%d", s.tls), 5*time.Second)
		if err != nil {
			res.Inconclusive = "client could not connect"
			return res
		}
		defer c.Close()
		inHandshake := func() bool {
			_, dump := serverGoroutines2("go-redis/redis.(*Server).tlsReceive(")
			return dump > 0
		}
		for dl := time.Now().Add(watchdog); !inHandshake() && time.Now().Before(dl); {
			time.Sleep(time.Millisecond)
		}
		if !inHandshake() {
			res.Inconclusive = "the server did not start the handshake"
			return res
		}
		stopErr := s.srv.Stop()
		if !clientClosed(&tcpClient{c: c}) {
			res.Violate(sig+":handshaking-client-open", "after Stop returns every client connection has been closed", "a client that had connected to the TLS port and not yet completed its handshake saw neither EOF nor reset within 3 s after Stop returned", desc)
			return res
		}
		afterStopReturned(&res, s, sig, stopErr, desc)
	case "accept-fails-transiently":
		acceptFailsTransiently(&res, s, ctl, sig, desc)
	case "stop-vs-gone-client":
		stopVsGoneClient(&res, s, ctl, g, sig, desc)
	case "stop-under-hangup-storm":
		hangupStorm(&res, s, ctl, idx, g, sig, desc)
	case "stop-vs-unwind":
		var clients []*tcpClient
		for i := 0; i < 3; i++ {
			c, err := s.dial(s.plain == 0 || (s.tls != 0 && i%2 == 1))
			if err != nil {
				res.Inconclusive = "client could not connect"
				return res
			}
			defer c.c.Close()
			c.do("PING")
			clients = append(clients, c)
		}
		ctl.Gate("conn.exit")
		if err := s.srv.Stop(); err != nil {
			res.Count("stop_returned_error", 1)
		}
		// Stop has returned. A connection goroutine parked at its own exit point provably has not finished.
		parked := 0
		if ctl.WaitParked("conn.exit", 2*time.Second) {
			for _, p := range ctl.Parked() {
				if p == "conn.exit" {
					parked++
				}
			}
		}
		n, dump := serverGoroutines()
		ctl.Ungate("conn.exit")
		if parked > 0 || n > base {
			res.Violate("C15:stop-does-not-join:"+g.Listeners, "after Stop returns no server goroutine remains", fmt.Sprintf("Stop returned while %d connection goroutine(s) were still running (parked at conn.exit: %d)\n%s", n-base, parked, clipS(dump, 1500)), desc)
		}
		for _, c := range clients {
			if !clientClosed(c) {
				res.Violate(sig+":client-open", "after Stop returns every client connection has been closed", "a client did not see EOF/reset", desc)
				return res
			}
		}
		if why := s.probeBindable(); why != "" {
			res.Violate(sig+":bind", "after Stop returns the ports can be bound again", why, desc)
		}
	}
	res.Sample = desc
	return res
}

// afterStopReturned probes what C15 promises once Stop has returned - whether or not it reported an error:
// the ports can be bound again, the registry is empty once no server goroutine is working, and a new Start works.
func afterStopReturned(res *run.Result, s *lcServer, sig string, stopErr error, desc any) bool {
	errNote := ""
	if stopErr != nil {
		res.Count("stop_returned_error", 1)
		errNote = fmt.Sprintf(" (Stop returned the error %q)", clipS(stopErr.Error(), 200))
	}
	if why := s.probeBindable(); why != "" {
		res.Violate(sig+":bind", "after Stop returns the ports can be bound again", why+errNote, desc)
		return false
	}
	deadline := time.Now().Add(watchdog)
	for time.Now().Before(deadline) && busyServerGoroutines() > 0 {
		time.Sleep(5 * time.Millisecond)
	}
	if busyServerGoroutines() > 0 {
		res.Inconclusive = "server goroutines still working at the end of the watchdog window"
		return false
	}
	if n := len(s.srv.Conns()); n != 0 {
		res.Violate(sig+":registry", "after Stop returns the connection registry is empty", fmt.Sprintf("%d entries with no server goroutine working%s", n, errNote), desc)
		return false
	}
	if n, dump := serverGoroutines(); n > 0 {
		// parked (not busy) server goroutines after Stop: accept loops or connection goroutines that were never ended
		for _, g := range strings.Split(dump, "\n\n") {
			if strings.Contains(g, ".serve(") || strings.Contains(g, ".tlsServe(") {
				res.Violate(sig+":accept-loop-left", "after Stop returns no server goroutine remains", "an accept loop is still parked in Accept after Stop returned"+errNote+"\n"+clipS(g, 800), desc)
				return false
			}
		}
	}
	res.Count("stop_postconditions_probed", 1)
	return true
}

// acceptFailsTransiently: the process runs out of descriptors for a moment, so that Accept fails for a connection
// that is already waiting in the listen queue; afterwards descriptors are available again. "After Start returns
// the server accepts and serves connections on every enabled port until Stop is called": the ports must serve again.
func acceptFailsTransiently(res *run.Result, s *lcServer, ctl *sched.Ctl, sig string, desc any) {
	var lim syscall.Rlimit
	if err := syscall.Getrlimit(syscall.RLIMIT_NOFILE, &lim); err != nil {
		res.Inconclusive = "getrlimit failed"
		return
	}
	es, _ := os.ReadDir("/proc/self/fd")
	low := lim
	low.Cur = uint64(len(es) + 40)
	if low.Cur > lim.Max {
		res.Inconclusive = "descriptor limit cannot be lowered"
		return
	}
	var fillers []*os.File
	restore := func() {
		for _, f := range fillers {
			f.Close()
		}
		fillers = nil
		syscall.Setrlimit(syscall.RLIMIT_NOFILE, &lim)
	}
	defer restore()
	if err := syscall.Setrlimit(syscall.RLIMIT_NOFILE, &low); err != nil {
		res.Inconclusive = "setrlimit failed"
		return
	}
	// take every free descriptor ...
	for {
		f, err := os.Open("/dev/null")
		if err != nil {
			break
		}
		fillers = append(fillers, f)
		if len(fillers) > 4096 {
			break
		}
	}
	if len(fillers) < 2 {
		res.Inconclusive = "could not exhaust the descriptors"
		return
	}
	// ... and for every enabled port give one back to a client: its connection is completed by the kernel and
	// waits in the listen queue, and the server's Accept has no descriptor left for it
	var waiting []net.Conn
	for _, port := range []int{s.plain, s.tls} {
		if port == 0 {
			continue
		}
		fillers[len(fillers)-1].Close()
		fillers = fillers[:len(fillers)-1]
		c, err := net.DialTimeout("tcp", fmt.Sprintf("127.0.0.1:%d", port), 5*time.Second)
		if err != nil {
			res.Inconclusive = "the client could not connect while descriptors were short: " + err.Error()
			return
		}
		waiting = append(waiting, c)
	}
	// let the accept loops run into the failure: each is either still retrying or gone; both take no descriptor.
	// (50 ms is not a verdict: if a loop has not tried yet it simply accepts the waiting client after the restore)
	time.Sleep(50 * time.Millisecond)
	restore()
	for _, c := range waiting {
		c.Close()
		s.closed++
	}
	res.Count("accept_failure_injections", int64(len(waiting)))
	// the server must serve again on every port (a retrying accept loop may pause between attempts: the probe's
	// own 5 s dial and 20 s reply deadlines are the watchdog)
	var why string
	for attempt := 0; attempt < 3; attempt++ {
		if why = s.probeServing(); why == "" {
			break
		}
		time.Sleep(300 * time.Millisecond)
	}
	if why != "" {
		res.Violate(sig+":not-serving-after-accept-error", "after Start returns the server accepts and serves connections on every enabled port until Stop is called", "after Accept failed once for lack of descriptors (EMFILE) and descriptors were available again: "+why, desc)
	}
}

// acceptFailsHard: the whole scenario runs in a victim process (this binary, `c15-accept-victim`) under
// `strace -e inject=accept4:error=<errno>:when=2+2`: every second accept4 call of every thread of the victim fails
// with the chosen errno without being executed (the connection stays in the listen queue). The victim starts the
// server, asks every enabled port for service six times, stops it, probes what Stop promises, starts it again and
// asks for service again. The number of injected failures is read from strace's log: none injected = inconclusive.
func acceptFailsHard(idx int, g c15gated) run.Result {
	var res run.Result
	res.Idx = idx
	res.Classes = []string{"gated:" + g.Kind, "accept-errno:" + g.Plain}
	res.Key = gen.Hash64([]byte(fmt.Sprint(g)))
	res.NonTrivial = true
	desc := map[string]any{"scenario": g.Kind, "listeners": g.Listeners, "errno": g.Plain, "rep": g.Rep}
	sconn.NextSeq()
	strace, err := exec.LookPath("strace")
	if err != nil {
		res.Inconclusive = "strace is not installed"
		return res
	}
	self, err := os.Executable()
	if err != nil {
		res.Inconclusive = "own executable unknown"
		return res
	}
	logf, err := os.CreateTemp("", "c15-strace-*.log")
	if err != nil {
		res.Inconclusive = "no temporary file"
		return res
	}
	logf.Close()
	defer os.Remove(logf.Name())
	ctx, cancel := context.WithTimeout(context.Background(), 150*time.Second)
	defer cancel()
	cmd := exec.CommandContext(ctx, strace, "-f", "-qq", "-o", logf.Name(), "-e", "trace=accept4", "-e", "inject=accept4:error="+g.Plain+":when=2+2", self, "c15-accept-victim", g.Listeners)
	cmd.Env = append(os.Environ(), "GORACE=halt_on_error=0 history_size=3")
	var stderr bytes.Buffer
	cmd.Stderr = &stderr
	done := make(chan struct{})
	go func() { // progress for the child watchdog while the victim works
		for {
			select {
			case <-done:
				return
			case <-time.After(500 * time.Millisecond):
				sconn.NextSeq()
			}
		}
	}()
	out, runErr := cmd.Output()
	close(done)
	trace, _ := os.ReadFile(logf.Name())
	injected := bytes.Count(trace, []byte("(INJECTED)"))
	res.Count("accept_failures_injected_by_strace", int64(injected))
	var victim *run.Result
	for _, l := range bytes.Split(out, []byte("\n")) {
		if bytes.HasPrefix(l, []byte("RESULT ")) {
			var r run.Result
			if json.Unmarshal(l[len("RESULT "):], &r) == nil {
				victim = &r
			}
		}
	}
	if victim == nil {
		if bytes.Contains(stderr.Bytes(), []byte("WARNING: DATA RACE")) || bytes.Contains(stderr.Bytes(), []byte("panic:")) || bytes.Contains(stderr.Bytes(), []byte("fatal error:")) {
			res.Violate("C15:accept-fails-hard:victim-died", "the server survives a failing Accept", clipS(stderr.String(), 3000), desc)
			return res
		}
		res.Inconclusive = fmt.Sprintf("the victim under strace gave no result (%v): %s", runErr, clipS(stderr.String(), 300))
		return res
	}
	if victim.Inconclusive != "" {
		res.Inconclusive = victim.Inconclusive
		return res
	}
	if injected == 0 {
		res.Inconclusive = "strace injected no accept4 failure"
		return res
	}
	for k, v := range victim.Counters {
		res.Count(k, v)
	}
	for _, v := range victim.Violations {
		res.Violate(v.Sig, v.Clause, fmt.Sprintf("with every second accept4 call failing with %s (%d failures injected by strace): %s", g.Plain, injected, v.Detail), desc)
	}
	res.AddSet("schedules", fmt.Sprint(g.Kind, g.Listeners, g.Plain))
	res.Sample = desc
	return res
}

// stopAfterPortOff: a port is switched off in the configuration while the server runs, then Stop is called. Stop
// has to come back and leave what it promises - for the listeners the server HOLDS, whatever the configuration
// says now. The scenario runs in a victim process (`vcheck c15-portoff-victim`): a Stop that never returns cannot
// be undone inside a process that has more cases to run.
func stopAfterPortOff(idx int, g c15gated) run.Result {
	var res run.Result
	res.Idx = idx
	res.Classes = []string{"gated:" + g.Kind}
	res.Key = gen.Hash64([]byte(fmt.Sprint(g)))
	res.NonTrivial = true
	desc := map[string]any{"scenario": g.Kind, "listeners": g.Listeners, "how": g.Plain, "rep": g.Rep}
	sconn.NextSeq()
	self, err := os.Executable()
	if err != nil {
		res.Inconclusive = "own executable unknown"
		return res
	}
	ctx, cancel := context.WithTimeout(context.Background(), 150*time.Second)
	defer cancel()
	cmd := exec.CommandContext(ctx, self, "c15-portoff-victim", g.Listeners, g.Plain)
	cmd.Env = append(os.Environ(), "GORACE=halt_on_error=0 history_size=3")
	if g.Kind == "start-stop-at-once" {
		// one processor: the goroutines a call has just started have not run yet when the next call begins
		cmd = exec.CommandContext(ctx, self, "c15-startstop-victim", g.Listeners)
		cmd.Env = append(os.Environ(), "GORACE=halt_on_error=0 history_size=3", "GOMAXPROCS=1")
	}
	var stderr bytes.Buffer
	cmd.Stderr = &stderr
	done := make(chan struct{})
	go func() {
		for {
			select {
			case <-done:
				return
			case <-time.After(500 * time.Millisecond):
				sconn.NextSeq()
			}
		}
	}()
	out, runErr := cmd.Output()
	close(done)
	var victim *run.Result
	for _, l := range bytes.Split(out, []byte("\n")) {
		if bytes.HasPrefix(l, []byte("RESULT ")) {
			var r run.Result
			if json.Unmarshal(l[len("RESULT "):], &r) == nil {
				victim = &r
			}
		}
	}
	if victim == nil {
		res.Inconclusive = fmt.Sprintf("the victim process gave no result (%v): %s", runErr, clipS(stderr.String(), 300))
		return res
	}
	if victim.Inconclusive != "" {
		res.Inconclusive = victim.Inconclusive
		return res
	}
	for k, v := range victim.Counters {
		res.Count(k, v)
	}
	for _, v := range victim.Violations {
		res.Violate(v.Sig, v.Clause, v.Detail, desc)
	}
	res.AddSet("schedules", fmt.Sprint(g.Kind, g.Listeners, g.Plain))
	res.Sample = desc
	return res
}

// c15PortOffVictimMain: `vcheck c15-portoff-victim <listeners> <how>`.
func c15PortOffVictimMain(args []string) int {
	var res run.Result
	emit := func() int {
		b, _ := json.Marshal(&res)
		fmt.Printf("RESULT %s\n", b)
		os.Stdout.Sync()
		os.Exit(0) // a hung Stop must not keep the victim alive
		return 0
	}
	if len(args) < 2 {
		return 2
	}
	listeners, how := args[0], args[1]
	sig := "C15:stop-after-port-switched-off:" + listeners + ":" + how
	s := newLcServer(listeners)
	if s == nil {
		res.Inconclusive = "pki unavailable"
		return emit()
	}
	if err := s.srv.Start(); err != nil {
		res.Inconclusive = "Start failed: " + err.Error()
		return emit()
	}
	if why := s.probeServing(); why != "" {
		res.Violate(sig+":initial", "after Start returns the server serves on every enabled port", why, nil)
		return emit()
	}
	switch how {
	case "config-set-port-0":
		c, err := s.dial(false)
		if err != nil {
			res.Inconclusive = "client could not connect"
			return emit()
		}
		v, err := c.do("CONFIG", "SET", "port", "0")
		c.c.Close()
		s.closed++
		if err != nil || !resp.Equal(v, resp.Status("OK")) {
			res.Inconclusive = fmt.Sprintf("CONFIG SET port 0 was not accepted: %v %v", v, err)
			return emit()
		}
	case "SetPort(0)":
		s.srv.SetPort(0)
	case "SetTLSPort(0)":
		s.srv.SetTLSPort(0)
	}
	stopped := make(chan error, 1)
	go func() { stopped <- s.srv.Stop() }()
	var stopErr error
	select {
	case stopErr = <-stopped:
	case <-time.After(10 * time.Second):
		// watchdog. The verdict is structural: Stop is parked waiting for the accept loops while an accept loop is
		// parked in Accept on a listener that nobody is going to close - no event can end this wait.
		_, dump := serverGoroutines()
		all := make([]byte, 1<<20)
		all = all[:runtime.Stack(all, true)]
		stopWaits := false
		for _, g := range strings.Split(string(all), "\n\n") {
			if strings.Contains(g, "(*Server).Stop") && (strings.Contains(g, "sync.(*WaitGroup).Wait") || strings.Contains(g, "sync.(*Mutex).Lock") || strings.Contains(g, "sync.(*RWMutex)")) {
				stopWaits = true
			}
		}
		loopInAccept := strings.Contains(dump, ".Accept(")
		if stopWaits && loopInAccept && busyServerGoroutines() == 0 {
			res.Violate(sig+":stop-never-returns", "after Stop returns the ports can be bound again ... (Stop has to return)", "10 s after the call Stop is parked waiting for the accept loops while an accept loop is parked in Accept on a listener that was not closed:\n"+clipS(dump, 1500), nil)
		} else {
			res.Inconclusive = "Stop did not return within the watchdog, without the structural witness"
		}
		return emit()
	}
	if !afterStopReturned(&res, s, sig, stopErr, nil) {
		return emit()
	}
	// the ports the server held are free; with the port switched back on a new Start works and serves
	if s.plain != 0 {
		s.srv.SetPort(s.plain)
	}
	if s.tls != 0 {
		s.srv.SetTLSPort(s.tls)
	}
	if err := s.srv.Start(); err != nil {
		res.Violate(sig+":start-after-stop", "after Stop returns the ports can be bound again and Start works", "Start after Stop failed: "+err.Error(), nil)
		return emit()
	}
	if why := s.probeServing(); why != "" {
		res.Violate(sig+":not-serving-after-second-start", "after Start returns the server serves on every enabled port", why, nil)
	}
	s.srv.Stop()
	res.Count("port_switched_off_runs", 1)
	return emit()
}

// c15StartStopVictimMain: `vcheck c15-startstop-victim <listeners>` with GOMAXPROCS=1.
func c15StartStopVictimMain(args []string) int {
	var res run.Result
	emit := func() int {
		b, _ := json.Marshal(&res)
		fmt.Printf("RESULT %s\n", b)
		os.Stdout.Sync()
		os.Exit(0)
		return 0
	}
	if len(args) < 1 {
		return 2
	}
	listeners := args[0]
	sig := "C15:start-stop-at-once:" + listeners
	s := newLcServer(listeners)
	if s == nil {
		res.Inconclusive = "pki unavailable"
		return emit()
	}
	for round := 0; round < 40; round++ {
		var err error
		if round%3 == 2 {
			err = s.srv.Restart()
		} else {
			err = s.srv.Start()
		}
		if err != nil {
			if !listeningSocketIsOurs(s.plain) && !listeningSocketIsOurs(s.tls) {
				continue // somebody else took the port meanwhile
			}
			res.Violate(sig+":start", "Start after Stop works", fmt.Sprintf("round %d: %v", round, err), nil)
			return emit()
		}
		stopErr := s.srv.Stop()
		// Stop has returned: no accept loop may exist any more - not even one that has not run its first statement
		all := make([]byte, 1<<20)
		all = all[:runtime.Stack(all, true)]
		for _, g := range strings.Split(string(all), "\n\n") {
			if strings.Contains(g, "(*Server).serve(") || strings.Contains(g, "(*Server).tlsServe(") || strings.Contains(g, "created by github.com/cybergarage/go-redis/redis.(*Server).start") {
				res.Violate(sig+":accept-loop-after-stop", "after Stop returns no server goroutine remains", fmt.Sprintf("round %d: Stop (error: %v) returned while an accept loop goroutine started by the preceding Start still exists:\n%s", round, stopErr, clipS(g, 900)), nil)
				return emit()
			}
		}
		res.Count("start_stop_rounds", 1)
	}
	return emit()
}

// c15AcceptVictimMain: `vcheck c15-accept-victim <listeners>`, run under strace by acceptFailsHard.
func c15AcceptVictimMain(args []string) int {
	var res run.Result
	emit := func() int {
		b, _ := json.Marshal(&res)
		fmt.Printf("RESULT %s\n", b)
		return 0
	}
	if len(args) < 1 {
		return 2
	}
	listeners := args[0]
	sig := "C15:accept-fails-hard:" + listeners
	s := newLcServer(listeners)
	if s == nil {
		res.Inconclusive = "pki unavailable"
		return emit()
	}
	if err := s.srv.Start(); err != nil {
		res.Inconclusive = "Start failed: " + err.Error()
		return emit()
	}
	serving := func(when string) bool {
		// a retrying accept loop pauses between attempts and every second attempt fails: the probe's own 5 s dial
		// and 20 s reply deadlines are the watchdog
		for round := 0; round < 6; round++ {
			var why string
			for attempt := 0; attempt < 3; attempt++ {
				if why = s.probeServing(); why == "" {
					break
				}
				time.Sleep(300 * time.Millisecond)
			}
			if why != "" {
				res.Violate(sig+":not-serving-"+when, "after Start or Restart returns without error the server accepts and serves connections on every enabled port until Stop is called", fmt.Sprintf("service request %d %s: %s", round+1, when, why), nil)
				return false
			}
			res.Count("service_requests_answered_under_accept_faults", 1)
		}
		return true
	}
	ok := serving("after-start")
	stopErr := s.srv.Stop()
	if !afterStopReturned(&res, s, sig+":stop", stopErr, nil) || !ok {
		s.srv.Stop()
		return emit()
	}
	if err := s.srv.Start(); err != nil {
		res.Violate(sig+":start-after-stop", "after Stop returns the ports can be bound again and Start works", "Start after Stop failed: "+err.Error(), nil)
		return emit()
	}
	serving("after-second-start")
	if err := s.srv.Restart(); err != nil {
		res.Violate(sig+":restart", "Restart on a running server returns without error", "Restart failed: "+err.Error(), nil)
		s.srv.Stop()
		return emit()
	}
	serving("after-restart")
	s.srv.Stop()
	return emit()
}

// rstClose makes the client vanish with a reset (linger 0) instead of an orderly FIN.
func rstClose(c *tcpClient) {
	nc := c.c
	if tc, ok := nc.(*tls.Conn); ok {
		nc = tc.NetConn()
	}
	if tc, ok := nc.(*net.TCPConn); ok {
		tc.SetLinger(0)
	}
	nc.Close()
}

func localPort(c *tcpClient) int {
	nc := c.c
	if tc, ok := nc.(*tls.Conn); ok {
		nc = tc.NetConn()
	}
	if a, ok := nc.LocalAddr().(*net.TCPAddr); ok {
		return a.Port
	}
	return 0
}

// peerSocketState returns the kernel's state (hex, as in /proc/net/tcp) of the server-side socket of the
// connection srvPort<-cliPort, "" when no such socket is hashed any more (a reset socket is unhashed).
func peerSocketState(srvPort, cliPort int) string {
	l, r := fmt.Sprintf(":%04X", srvPort), fmt.Sprintf(":%04X", cliPort)
	for _, f := range []string{"/proc/net/tcp", "/proc/net/tcp6"} {
		b, err := os.ReadFile(f)
		if err != nil {
			continue
		}
		for _, ln := range strings.Split(string(b), "\n")[1:] {
			fs := strings.Fields(ln)
			if len(fs) >= 4 && strings.HasSuffix(fs[1], l) && strings.HasSuffix(fs[2], r) {
				return fs[3]
			}
		}
	}
	return ""
}

// stopVsGoneClient: a client sends a command whose handler is still running, then goes away (reset or FIN);
// Stop is called while that connection is still registered. Everything Stop promises must hold afterwards.
func stopVsGoneClient(res *run.Result, s *lcServer, ctl *sched.Ctl, g c15gated, sig string, desc any) {
	sig += ":" + g.Plain
	var armed atomic.Bool
	parked := make(chan struct{}, 8)
	release := make(chan struct{})
	s.rec.Yield = func() {
		if armed.Load() {
			parked <- struct{}{}
			<-release
		}
	}
	released := false
	defer func() {
		if !released {
			close(release)
		}
	}()
	// three healthy, idle clients besides the ones that will be gone: Stop has to close them whatever
	// happens when it closes the others
	var healthy []*tcpClient
	for i := 0; i < 3; i++ {
		c, err := s.dial(s.plain == 0 || (s.tls != 0 && i == 1))
		if err != nil {
			res.Inconclusive = "client could not connect"
			return
		}
		defer c.c.Close()
		if _, err := c.do("PING"); err != nil {
			res.Inconclusive = "PING failed"
			return
		}
		healthy = append(healthy, c)
	}
	var gone []*tcpClient
	for _, t := range s.ports() {
		c, err := s.dial(t)
		if err != nil {
			res.Inconclusive = "client could not connect"
			return
		}
		defer c.c.Close()
		if _, err := c.do("PING"); err != nil {
			res.Inconclusive = "PING failed"
			return
		}
		gone = append(gone, c)
	}
	armed.Store(true)
	for _, c := range gone {
		c.c.SetDeadline(time.Now().Add(watchdog))
		if _, err := c.c.Write(resp.Encode(resp.Cmd("GET", "k"))); err != nil {
			res.Inconclusive = "write failed"
			return
		}
		if !armed.Load() {
			continue // commands run one at a time: this request queues behind the first connection's handler
		}
		select {
		case <-parked:
		case <-time.After(watchdog):
			res.Inconclusive = "the handler was not reached"
			return
		}
		armed.Store(false)
	}
	for i, c := range gone {
		port := s.plain
		if _, ok := c.c.(*tls.Conn); ok {
			port = s.tls
		}
		lp := localPort(c)
		if g.Plain == "reset" {
			rstClose(c)
			// the reset has arrived when the kernel no longer lists the server-side socket
			dl := time.Now().Add(watchdog)
			for peerSocketState(port, lp) != "" && time.Now().Before(dl) {
				time.Sleep(time.Millisecond)
			}
			if peerSocketState(port, lp) != "" {
				res.Inconclusive = "the reset did not arrive"
				return
			}
		} else {
			c.c.Close()
			dl := time.Now().Add(watchdog)
			for peerSocketState(port, lp) == "01" && time.Now().Before(dl) {
				time.Sleep(time.Millisecond)
			}
		}
		_ = i
	}
	res.Count("clients_gone_before_stop", int64(len(gone)))
	done := make(chan error, 1)
	go func() { done <- s.srv.Stop() }()
	var stopErr error
	select {
	case stopErr = <-done:
	case <-time.After(watchdog):
		// Stop may legitimately wait for the busy handler: release it and wait again
		close(release)
		released = true
		select {
		case stopErr = <-done:
			res.Count("stop_waited_for_handler", 1)
		case <-time.After(watchdog):
			res.Inconclusive = "Stop did not return"
			return
		}
	}
	if !released {
		close(release)
		released = true
	}
	for _, c := range healthy {
		if !clientClosed(c) {
			res.Violate(sig+":healthy-client-open", "after Stop returns every client connection has been closed", "an idle client was still connected 3 s after Stop returned (other connections of the server had been reset by their peers before Stop)"+map[bool]string{true: "; Stop returned " + fmt.Sprint(stopErr), false: ""}[stopErr != nil], desc)
			return
		}
	}
	afterStopReturned(res, s, sig, stopErr, desc)
}

// hangupStorm: every registered client hangs up (FIN or reset) while Stop runs.
func hangupStorm(res *run.Result, s *lcServer, ctl *sched.Ctl, idx int, g c15gated, sig string, desc any) {
	r := rng.New(c15.seed, rng.Str("C15hangup"), uint64(idx), uint64(g.Rep))
	n := 24 + r.Intn(41)
	var clients []*tcpClient
	for i := 0; i < n; i++ {
		c, err := s.dial(s.plain == 0 || (s.tls != 0 && i%2 == 1))
		if err != nil {
			res.Inconclusive = "client could not connect"
			return
		}
		defer c.c.Close()
		if _, err := c.do("PING"); err != nil {
			res.Inconclusive = "PING failed"
			return
		}
		clients = append(clients, c)
	}
	res.Count("hangup_storm_connections", int64(n))
	start := make(chan struct{})
	var wg sync.WaitGroup
	lanes := 8
	for l := 0; l < lanes; l++ {
		wg.Add(1)
		go func(l int) {
			defer wg.Done()
			<-start
			for i := l; i < len(clients); i += lanes {
				if (i/lanes+l)%2 == 0 {
					rstClose(clients[i])
				} else {
					clients[i].c.Close()
				}
			}
		}(l)
	}
	spin := r.Intn(2000)
	done := make(chan error, 1)
	go func() {
		<-start
		for i := 0; i < spin; i++ {
			_ = i
		}
		done <- s.srv.Stop()
	}()
	close(start)
	wg.Wait()
	var stopErr error
	select {
	case stopErr = <-done:
	case <-time.After(watchdog):
		res.Inconclusive = "Stop did not return"
		return
	}
	afterStopReturned(res, s, sig, stopErr, desc)
}

// stopStorm: Stop in the middle of a connect storm (shared by C15 and C19).
func stopStorm(res *run.Result, s *lcServer, ctl *sched.Ctl, idx int, rep int, prop string, desc any) {
	r := rng.New(c15.seed, rng.Str("C15storm"), uint64(idx), uint64(rep))
	var mu sync.Mutex
	var conns []*tcpClient
	var raws []net.Conn
	stopDial := make(chan struct{})
	var wg sync.WaitGroup
	for d := 0; d < 16; d++ {
		wg.Add(1)
		go func(d int) {
			defer wg.Done()
			for k := 0; k < 12; k++ {
				select {
				case <-stopDial:
					return
				default:
				}
				if s.tls != 0 && (d+k)%3 == 1 {
					// a client of the TLS port that has not sent its ClientHello yet
					if rc, err := net.DialTimeout("tcp", fmt.Sprintf("127.0.0.1:%d", s.tls), 5*time.Second); err == nil {
						mu.Lock()
						raws = append(raws, rc)
						mu.Unlock()
					}
					continue
				}
				c, err := s.dial(s.tls != 0 && (d+k)%3 == 0)
				if err != nil {
					continue
				}
				mu.Lock()
				conns = append(conns, c)
				mu.Unlock()
			}
		}(d)
	}
	// let some connections register, then Stop in the middle of the storm
	ctl.WaitCount("conn.registered", 4+r.Intn(40), watchdog)
	if err := s.srv.Stop(); err != nil {
		// an error is no excuse: everything below is promised "after Stop returns"
		res.Count("stop_returned_error", 1)
	}
	close(stopDial)
	wg.Wait()
	res.Count("storm_connections", int64(len(conns)))
	res.Count("storm_connections_without_client_hello", int64(len(raws)))
	// every connection made to the TLS port without a handshake must have been ended by the server
	for _, rc := range raws {
		if !clientClosed(&tcpClient{c: rc}) {
			// The dialers go on until after Stop has returned, and the loopback port space is shared with every
			// other process: once Stop has freed the port somebody else may listen on it. Only a connection whose
			// server-side socket is OURS counts.
			if cp := portOf(rc.LocalAddr()); cp == 0 || !acceptedSocketIsOurs(s.tls, cp) {
				res.Count("storm_connections_that_reached_a_foreign_listener", 1)
				rc.Close()
				continue
			}
			res.Violate(prop+":stop-under-connect-storm:handshaking-client-open", "after Stop returns every client connection has been closed", "a connection made to the TLS port during the storm (no ClientHello sent) saw neither EOF nor reset within 3 s after Stop returned", desc)
			for _, rc := range raws {
				rc.Close()
			}
			for _, c := range conns {
				c.c.Close()
			}
			return
		}
		rc.Close()
	}
	// a connection that still ANSWERS after Stop returned is a definite violation (no timing involved)
	for _, c := range conns {
		c.c.SetDeadline(time.Now().Add(300 * time.Millisecond))
		if _, err := c.c.Write(resp.Encode(resp.Cmd("PING"))); err != nil {
			continue
		}
		if v, err := c.read(); err == nil {
			res.Violate(prop+":stop-under-connect-storm:served-after-stop", "after Stop returns every client connection has been closed", fmt.Sprintf("a connection opened while Stop was running answered PING with %s after Stop had returned", v), desc)
			for _, c := range conns {
				c.c.Close()
			}
			return
		}
	}
	// at a fixed point (no server goroutine still working) the registry must be empty
	deadline := time.Now().Add(watchdog)
	for time.Now().Before(deadline) && (busyServerGoroutines() > 0 || len(s.srv.Conns()) > 0) {
		if busyServerGoroutines() == 0 && len(s.srv.Conns()) > 0 {
			break
		}
		time.Sleep(5 * time.Millisecond)
	}
	if n := len(s.srv.Conns()); n != 0 {
		if busyServerGoroutines() == 0 {
			res.Violate(prop+":stop-under-connect-storm:registry", "after Stop returns the connection registry is empty and every client connection has been closed", fmt.Sprintf("%d connection(s) are still registered and their goroutines are parked waiting for input after Stop returned", n), desc)
		} else {
			res.Inconclusive = "server goroutines still working at the end of the watchdog window"
		}
	}
	for _, c := range conns {
		c.c.Close()
	}
	if why := s.probeBindable(); why != "" {
		res.Violate(prop+":stop-under-connect-storm:bind", "after Stop returns the ports can be bound again", why, desc)
	}
}

func c15runSeq(idx int, q c15seq) run.Result {
	var res run.Result
	res.Idx = idx
	res.Classes = []string{"history"}
	res.Key = gen.Hash64([]byte(fmt.Sprint(q)))
	res.NonTrivial = len(q.Calls) >= 2
	r := rng.New(c15.seed, rng.Str("C15"), uint64(idx))
	s := newLcServer(q.Listeners)
	if s == nil {
		res.Inconclusive = "pki unavailable"
		return res
	}
	base, _ := serverGoroutines()
	ctl := sched.Install()
	defer ctl.Uninstall()
	running := false
	startWhileRunning := false
	var clients []*tcpClient
	closeAll := func() {
		for _, c := range clients {
			c.c.Close()
			s.closed++
		}
		clients = nil
	}
	defer func() {
		// leave nothing behind for the next case of this child: its controller would count our late point hits
		closeAll()
		s.srv.Stop()
		waitGoroutines(base)
	}()
	var trace []string
	desc := func() any {
		return map[string]any{"calls": q.Calls, "listeners": q.Listeners, "trace": trace, "start_while_running": startWhileRunning}
	}
	tag := func() string {
		if startWhileRunning {
			return ":start-while-running"
		}
		return ""
	}
	for ci, call := range q.Calls {
		var err error
		switch call {
		case "Start":
			if running {
				startWhileRunning = true
			}
			err = s.srv.Start()
		case "Stop":
			err = s.srv.Stop()
		case "Restart":
			err = s.srv.Restart()
		}
		trace = append(trace, fmt.Sprintf("%s -> %v", call, err))
		res.Count("lifecycle_calls", 1)
		sig := fmt.Sprintf("C15:history:%s%s", call, tag())
		switch {
		case call == "Stop":
			// what Stop promises holds once it has returned, with or without an error
			if err != nil {
				res.Count("stop_returned_error", 1)
			}
			running = false
			for _, c := range clients {
				if !clientClosed(c) {
					res.Violate(sig+":client-open", "after Stop returns every client connection has been closed", fmt.Sprintf("call %d: a connected client saw neither EOF nor reset", ci), desc())
					return res
				}
			}
			closeAll()
			if why := s.probeBindable(); why != "" {
				res.Violate(sig+":bind", "after Stop returns the ports can be bound again", why, desc())
				return res
			}
			if n := len(s.srv.Conns()); n != 0 {
				res.Violate(sig+":registry", "after Stop returns the connection registry is empty", fmt.Sprintf("%d entries", n), desc())
				return res
			}
			if excess, dump := waitGoroutines(base); excess > 0 {
				if busyServerGoroutines() > 0 {
					res.Inconclusive = "server goroutines were still working at the end of the grace window after Stop (loaded machine)"
					return res
				}
				res.Violate(sig+":goroutine-leak", "after Stop no server goroutine remains", fmt.Sprintf("%d server goroutine(s) still exist 3 s after Stop returned:\n%s", excess, clipS(dump, 1500)), desc())
				return res
			}
		case (call == "Start" || call == "Restart") && err == nil:
			if call == "Restart" {
				closeAll() // Restart stops first: previous clients are gone
			}
			running = true
			if why := s.probeServing(); why != "" {
				res.Violate(sig+":not-serving", "after Start or Restart returns without error the server accepts and serves connections on every enabled port", fmt.Sprintf("call %d: %s", ci, why), desc())
				return res
			}
		case err != nil:
			// an error promises nothing by itself; a running server must keep serving
			if running && call == "Start" {
				if why := s.probeServing(); why != "" {
					res.Violate(sig+":broke-running-server", "the server serves until Stop is called", fmt.Sprintf("call %d: a failed Start on a running server stopped it from serving: %s", ci, why), desc())
					return res
				}
			}
			if call == "Restart" {
				running = false
				closeAll()
			}
		}
		// clients connect / idle / disconnect between calls; registry == served connections at quiescent instants
		if running {
			n := r.Intn(4)
			for k := 0; k < n; k++ {
				c, err := s.dial(s.tls != 0 && r.Bool())
				if err != nil {
					res.Violate(sig+":dial", "while running the server accepts connections", err.Error(), desc())
					return res
				}
				if v, err := c.do("PING"); err != nil {
					res.Violate(sig+":ping", "while running the server serves connections", fmt.Sprint(v, err), desc())
					return res
				}
				clients = append(clients, c)
			}
			if len(clients) > 0 && r.Bool() {
				clients[0].c.Close()
				s.closed++
				clients = clients[1:]
			}
			if s.tls != 0 && r.Chance(1, 3) {
				// a client the common-name rule refuses: it is never served, so it must not appear in the registry
				d := &net.Dialer{Timeout: 5 * time.Second}
				if bad, err := tls.DialWithDialer(d, "tcp", fmt.Sprintf("127.0.0.1:%d", s.tls), s.p.ClientConfig(pki.CredWrongCN)); err == nil {
					bc := &tcpClient{c: bad}
					if v, err := bc.do("PING"); err == nil {
						res.Violate(sig+":refused-client-served", "while running, the registry contains exactly the connections currently being served", fmt.Sprintf("a client refused by the common-name rule was answered %s", v), desc())
						bad.Close()
						return res
					}
					bad.Close()
					s.closed++
					res.Count("refused_tls_clients", 1)
				}
			}
			// quiescent instant: every connection this harness ended has finished its goroutine
			// (the conn.exit point fires whether or not the registry was updated)
			if !ctl.WaitCount("conn.exit", s.closed, watchdog) {
				res.Inconclusive = "a closed client's connection goroutine did not finish within the watchdog"
				return res
			}
			if got := len(s.srv.Conns()); got != len(clients) {
				res.Violate(sig+":registry-mismatch", "while running, the registry contains exactly the connections currently being served", fmt.Sprintf("after call %d: %d client sockets are open and answered, registry has %d entries", ci, len(clients), got), desc())
				return res
			}
			res.Count("registry_checks", 1)
		}
	}
	if idx%37 == 0 {
		res.Sample = desc()
	}
	return res
}

var _ = resp.Cmd

func init() {
	extra["c15-accept-victim"] = c15AcceptVictimMain
	extra["c15-portoff-victim"] = c15PortOffVictimMain
	extra["c15-startstop-victim"] = c15StartStopVictimMain
	run.Register(&run.Prop{
		ID: "C15", PassiveWatchdog: true, Level: "fault_enumeration",
		Rule: func(tier string) string {
			return "two parts. (gated, hook H2) a controller parks goroutines at named schedule points and releases them in a chosen order: Restart vs the exiting accept loops for {plain, TLS, both} listeners with each old loop's exit (and its deferred close) placed before Stop returns / after the new listeners are open / concurrently (3, 3 and 9 placements); Stop vs a connection accepted while Stop is between its two phases; Stop vs connection goroutines parked at their exit point; Stop in the middle of a connect storm (16 dialing goroutines, repeated; a connection that answers after Stop returned, or that is still registered at a fixed point, is a violation); Stop while a client whose handler is still running has already gone away by reset or FIN (the reset is known to have arrived when the kernel no longer lists the server-side socket); Stop while 24..64 registered clients hang up by FIN and reset at the same moment (free-running, repeated). What Stop promises is probed whenever Stop returns, with or without an error. Stop while a client of the TLS port has connected but not sent its ClientHello (it must see EOF or a reset within 3 s). Restart while an accepted connection's goroutine is held at its first step (schedule point conn.accepted), before it has registered: the connection must not be served afterwards. A Start that fails in its TLS half (the TLS port is held by another socket) must leave the plain port bindable, and after Stop a new Start must work. A transient Accept failure: every free descriptor of the process is taken, one client per port is left waiting in the listen queue so that Accept fails with EMFILE, the descriptors are released, and every port must serve again. A hard Accept failure: the scenario (Start, six service requests per port, Stop and its postconditions, Start, six requests, Restart, six requests) runs in a victim process under strace fault injection, every second accept4 call failing with one of ENOBUFS, EPROTO, EHOSTUNREACH, EMFILE (thorough: also ENOMEM, EPERM, ENETDOWN, ENFILE, EOPNOTSUPP) - errors the runtime does not mark temporary as well as ones it does; the injections are counted from strace's log. A port switched off in the configuration of the running server (a client's CONFIG SET port 0, the application's SetPort(0) or SetTLSPort(0)) followed by Stop, in a victim process: Stop must return (10 s watchdog; the verdict is structural - Stop parked waiting for the accept loops while a loop is parked in Accept on a listener nobody closed), the ports the server HELD must be free, and with the port switched on again a new Start serves. Two connections from ONE client address and port, one to each listener: two registry entries, the end of one leaves the other registered and served, Stop closes it. Start or Restart immediately followed by Stop, 40 times in a victim process that runs on ONE processor (what a call has started has not run yet when the next begins): when Stop returns no accept-loop goroutine may exist. Postconditions probed after everything is released: dial+PING on every enabled port (twice), bind probe, client-side EOF, Conns() empty, goroutine profile. (histories) ALL call sequences over {Start, Stop, Restart} up to length 4 (quick) / 6 (thorough) x {plain, plain+TLS} with 0..3 clients connecting, idling or disconnecting between calls (and, on the TLS port, clients that a common-name rule refuses after their handshake); after each call the promise of that call is probed, and at quiescent instants len(Conns()) must equal the number of client sockets held open (waiting on the conn.deregistered point, not on time). Start on a running server is tagged start-while-running. A goroutine leak is only reported when the count stays above baseline for the whole grace window; a goroutine parked at its own schedule point after Stop returned is a strict violation. Children are race-detector builds. distinct = scenario/sequence"
		},
		Exhaustive:    func(string) bool { return true },
		Assumptions:   []string{"TLS listeners are configured through the file-based path with a PKI minted at run time", "wall-clock watchdogs only produce 'inconclusive'"},
		Setup:         c15setup,
		Run:           c15run,
		Describe:      func(idx int) any { return map[string]any{"sig": "lifecycle", "idx": idx} },
		Chunk:         12,
		MinConclusive: 50,
		Race:          true,
	})
}

// listeningSocketIsOurs reports whether this process holds a LISTEN socket on the TCP port.
func portOf(a net.Addr) int {
	if t, ok := a.(*net.TCPAddr); ok {
		return t.Port
	}
	return 0
}

// acceptedSocketIsOurs: is the server-side socket of the connection (server port, client port) open in THIS process?
func acceptedSocketIsOurs(serverPort, clientPort int) bool {
	mine := map[string]bool{}
	if es, err := os.ReadDir("/proc/self/fd"); err == nil {
		for _, e := range es {
			if t, err := os.Readlink("/proc/self/fd/" + e.Name()); err == nil && strings.HasPrefix(t, "socket:[") {
				mine[strings.TrimSuffix(strings.TrimPrefix(t, "socket:["), "]")] = true
			}
		}
	}
	local, remote := fmt.Sprintf(":%04X", serverPort), fmt.Sprintf(":%04X", clientPort)
	for _, f := range []string{"/proc/net/tcp", "/proc/net/tcp6"} {
		b, err := os.ReadFile(f)
		if err != nil {
			continue
		}
		for _, l := range strings.Split(string(b), "\n")[1:] {
			fs := strings.Fields(l)
			if len(fs) < 10 || !strings.HasSuffix(fs[1], local) || !strings.HasSuffix(fs[2], remote) {
				continue
			}
			if mine[fs[9]] {
				return true
			}
		}
	}
	return false
}

func listeningSocketIsOurs(port int) bool {
	mine := map[string]bool{}
	if es, err := os.ReadDir("/proc/self/fd"); err == nil {
		for _, e := range es {
			if t, err := os.Readlink("/proc/self/fd/" + e.Name()); err == nil && strings.HasPrefix(t, "socket:[") {
				mine[strings.TrimSuffix(strings.TrimPrefix(t, "socket:["), "]")] = true
			}
		}
	}
	want := fmt.Sprintf(":%04X", port)
	for _, f := range []string{"/proc/net/tcp", "/proc/net/tcp6"} {
		b, err := os.ReadFile(f)
		if err != nil {
			continue
		}
		for _, l := range strings.Split(string(b), "\n")[1:] {
			fs := strings.Fields(l)
			if len(fs) < 10 || !strings.HasSuffix(fs[1], want) || fs[3] != "0A" {
				continue
			}
			if mine[fs[9]] {
				return true
			}
		}
	}
	return false
}
