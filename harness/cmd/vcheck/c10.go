package main

import (
	"fmt"
	"time"

	"verif/double"
	"verif/gen"
	"verif/grammar"
	"verif/resp"
	"verif/rng"
	"verif/run"
	"verif/sconn"
)

var c10 struct {
	seed    uint64
	tier    string
	perSpec int
}

// case idx -> (spec, k-th generated vector); all ill-formed variants of that
// vector are executed inside the case. The last len(Specs) indexes enumerate
// the SET exclusive-option table.
func c10variants(idx int) (string, []grammar.Variant) {
	name, vs, _ := c10variantsOf(idx)
	return name, vs
}

// c10variantsOf also returns the well-formed vector the variants were derived from (nil for the SET table).
func c10variantsOf(idx int) (string, []grammar.Variant, *grammar.Vector) {
	nspec := len(grammar.Specs)
	if idx >= nspec*c10.perSpec {
		return "SET", grammar.SetExclusive(fmt.Sprintf("t%d", idx)), nil
	}
	spec := grammar.Specs[idx%nspec]
	r := rng.New(c10.seed, rng.Str("C10"), uint64(idx))
	v := grammar.Generate(spec, r, fmt.Sprintf("t%d", idx))
	return spec.Name, grammar.IllFormed(v, true, r), v
}

func c10run(idx int) run.Result {
	var res run.Result
	res.Idx = idx
	name, vs, valid := c10variantsOf(idx)
	res.Classes = []string{"cmd:" + name}
	// the well-formed request is sent behind [variant, ECHO] too when it is a plain core command (one handler
	// operation whose call the grammar predicts exactly): nothing of the refused request may show up in its call
	withValid := valid != nil && valid.Class == grammar.Core && !valid.Quit && len(valid.Expect) > 0
	for vi, va := range vs {
		tok := fmt.Sprintf("echo%d.%d", idx, vi)
		// every second variant arrives on a connection that has already served two requests (answered by the
		// framework itself, no handler involved): whatever the connection keeps from request to request - parsed
		// messages, buffers - must not lend the ill-formed request what it lacks
		pre := 0
		var reqs []resp.Value
		if vi%2 == 1 {
			reqs = append(reqs, resp.Cmd("ECHO", "earlier-"+tok), resp.Cmd("PING", "earlier-argument"))
			pre = 2
		}
		reqs = append(reqs, va.Req, resp.Cmd("ECHO", tok))
		if withValid {
			reqs = append(reqs, valid.Value())
		}
		stream, ends := encodeReqs(reqs)
		rec := double.NewRec()
		before := time.Now()
		pr := runPipe(newServer(rec), reqs, chunkAt(stream, ends), sconn.Script{End: sconn.EOF})
		after := time.Now()
		calls := rec.Snapshot()
		var laterCalls []double.Call
		if withValid && len(pr.Snap.WouldBlocks) >= pre+3 {
			// calls made after the ECHO was answered belong to the well-formed request
			cut := pr.Snap.WouldBlocks[pre+2].Seq
			var early []double.Call
			for _, c := range calls {
				if c.Seq > cut {
					laterCalls = append(laterCalls, c)
				} else {
					early = append(early, c)
				}
			}
			calls = early
		}
		res.Count("variants", 1)
		res.Count("class:"+va.Class, 1)
		key := gen.Hash64(stream[:ends[pre]]) ^ uint64(pre)
		res.Keys = append(res.Keys, key)
		desc := map[string]any{"command": name, "class": va.Class, "what": va.What, "request": clipS(va.Req.String(), 400), "request_hex": hexClip(resp.Encode(va.Req), 300),
			"calls": callStrs(calls), "replies": clipS(fmt.Sprint(pr.Frames), 300)}
		sig := fmt.Sprintf("C10:%s:%s:%s", name, va.Class, slotOf(va.What))
		if pr.TimedOut {
			res.Inconclusive = "watchdog: serve did not return"
			continue
		}
		if pr.Panic != "" {
			res.Violate(sig+":panic", "an ill-formed request is answered with an error reply", pr.Panic+"\n"+clipS(pr.Stack, 1200), desc)
			continue
		}
		if pr.Bad != "" || pr.Rest != 0 || len(pr.Frames) != len(reqs) {
			res.Violate(sig+":frames", "an ill-formed request is answered with exactly one reply and the next request is processed normally", fmt.Sprintf("frames=%d rest=%d bad=%q", len(pr.Frames), pr.Rest, pr.Bad), desc)
			continue
		}
		if len(calls) != 0 {
			res.Violate(sig+":handler-invoked", "the command handler is not invoked for an ill-formed request (no partial execution, no invented defaults)", fmt.Sprintf("calls=%v", callStrs(calls)), desc)
			continue
		}
		if !pr.Frames[pre].IsErr() {
			res.Violate(sig+":not-an-error", "an ill-formed request is answered with an error reply", fmt.Sprintf("reply=%s", clipS(pr.Frames[pre].String(), 200)), desc)
			continue
		}
		if !resp.Equal(pr.Frames[pre+1], resp.BulkS(tok)) {
			res.Violate(sig+":next", "the following request is processed normally", fmt.Sprintf("ECHO answered %s", clipS(pr.Frames[pre+1].String(), 200)), desc)
			continue
		}
		if withValid {
			if why := matchCalls(valid, laterCalls, before, after); why != "" {
				desc["later_calls"] = callStrs(laterCalls)
				res.Violate(sig+":next-same-command", "the following requests on the connection are processed normally (no partial execution of the refused one)", "the well-formed "+name+" sent after the refused one: "+why, desc)
				continue
			}
			res.Count("well_formed_followups_matched", 1)
		}
		if idx%61 == 0 && vi == 0 {
			res.Sample = desc
		}
	}
	res.NonTrivial = false // distinctness is per variant (Keys)
	return res
}

// slotOf reduces a variant description to the slot it touches.
func slotOf(what string) string {
	for i := 0; i < len(what); i++ {
		if what[i] == '=' {
			return what[:i]
		}
	}
	return what
}

func init() {
	run.Register(&run.Prop{
		ID: "C10", Level: "exploration",
		Rule: func(tier string) string {
			return "case = one well-formed vector of one grammar entry (every entry, several generated vectors each so that all option shapes occur) from which ALL ill-formed variants are derived systematically: each required position omitted (vector cut before it), each value position replaced by a null bulk, each numeric position replaced by non-numeric / fractional / overflowing tokens (fixed boundary tokens plus six seeded random 20..25-digit numbers per position), each pair list cut to a dangling half; plus the complete table of SET exclusive-option combinations, repetitions and non-positive expiries. Each variant runs as [variant, ECHO token, the well-formed vector itself] on a fresh scripted connection with a recording handler; every second variant on a connection that has already answered two requests (ECHO, PING with an argument) before it. Oracle: zero handler calls for the variant, reply 1 is an error frame, reply 2 is the echo, and the well-formed request behind them produces exactly the handler call(s) the grammar predicts (nothing of the refused request leaks into it). distinct_nontrivial = distinct variant request encodings (every variant is ill-formed, hence non-trivial); counters class:* give variants per class"
		},
		Assumptions: []string{"what is ill-formed is decided by the independent grammar (Redis command reference): arity, numeric syntax, pair completeness, SET option exclusivity"},
		Setup: func(tier string, seed uint64) int {
			c10.seed, c10.tier = seed, tier
			c10.perSpec = map[string]int{"quick": 80, "thorough": 6000}[tier]
			return len(grammar.Specs)*c10.perSpec + 1
		},
		Run: c10run,
		Describe: func(idx int) any {
			name, vs := c10variants(idx)
			return map[string]any{"sig": name, "variants": len(vs)}
		},
		Chunk:         20,
		MinConclusive: 100,
	})
}
