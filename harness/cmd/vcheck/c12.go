package main

import (
	"fmt"
	"sort"
	"strings"

	"verif/gen"
	"verif/model"
	"verif/refstore"
	"verif/resp"
	"verif/rng"
	"verif/run"
	"verif/sconn"
)

var c12 struct {
	seed  uint64
	tier  string
	grids [][]resp.Value // exhaustive grid programs
	names []string
}

func c12buildGrids(thorough bool) {
	c12.grids, c12.names = nil, nil
	add := func(name string, prog []resp.Value) {
		c12.grids = append(c12.grids, prog)
		c12.names = append(c12.names, name)
	}
	cmd := resp.Cmd
	// GETRANGE / SUBSTR: lengths 0..6 x start,end in -9..9, also on a missing key
	for _, c := range []string{"GETRANGE", "SUBSTR"} {
		for l := 0; l <= 6; l++ {
			prog := []resp.Value{cmd("SET", "s", "abcdef"[:l])}
			for st := -9; st <= 9; st++ {
				for en := -9; en <= 9; en++ {
					prog = append(prog, cmd(c, "s", fmt.Sprint(st), fmt.Sprint(en)))
				}
			}
			add(fmt.Sprintf("%s-grid-len%d", c, l), prog)
		}
		prog := []resp.Value{}
		for st := -3; st <= 3; st++ {
			for en := -3; en <= 3; en++ {
				prog = append(prog, cmd(c, "missing", fmt.Sprint(st), fmt.Sprint(en)))
			}
		}
		add(c+"-grid-missing-key", prog)
	}
	// GETRANGE / SUBSTR with indices at the edges of the 64-bit range
	for _, c := range []string{"GETRANGE", "SUBSTR"} {
		ext := []string{"-9223372036854775808", "-9223372036854775807", "-4294967296", "-2", "-1", "0", "1", "2", "4294967296", "9223372036854775806", "9223372036854775807"}
		var prog []resp.Value
		for l := 0; l <= 3; l++ {
			prog = append(prog, cmd("SET", "s", "abc"[:l]))
			for _, st := range ext {
				for _, en := range ext {
					prog = append(prog, cmd(c, "s", st, en))
				}
			}
		}
		add(c+"-grid-extreme-indices", prog)
	}
	// ZREVRANGE: sizes 0..5 x start,stop in -7..7 x {plain, WITHSCORES}, distinct and tied scores
	for _, tied := range []bool{false, true} {
		for size := 0; size <= 5; size++ {
			for _, ws := range []bool{false, true} {
				var prog []resp.Value
				for i := 0; i < size; i++ {
					sc := fmt.Sprint(i + 1)
					if tied {
						sc = fmt.Sprint((i + 1) / 2)
					}
					prog = append(prog, cmd("ZADD", "z", sc, string(rune('a'+(i*3)%5))+fmt.Sprint(i)))
				}
				for st := -7; st <= 7; st++ {
					for en := -7; en <= 7; en++ {
						if ws {
							prog = append(prog, cmd("ZREVRANGE", "z", fmt.Sprint(st), fmt.Sprint(en), "WITHSCORES"))
						} else {
							prog = append(prog, cmd("ZREVRANGE", "z", fmt.Sprint(st), fmt.Sprint(en)))
						}
					}
				}
				add(fmt.Sprintf("ZREVRANGE-grid-size%d-tied%v-ws%v", size, tied, ws), prog)
			}
		}
	}
	// ZREVRANGEBYSCORE: 6x6 bounds with inclusive/exclusive markers, with/without WITHSCORES
	bounds := []string{"-inf", "0", "1", "2.5", "4", "+inf"}
	for _, ws := range []bool{false, true} {
		for _, tied := range []bool{false, true} {
			prog := []resp.Value{}
			for i := 0; i < 5; i++ {
				sc := fmt.Sprint(i)
				if tied {
					sc = fmt.Sprint(i / 2 * 2)
				}
				prog = append(prog, cmd("ZADD", "z", sc, "m"+fmt.Sprint(i)))
			}
			for _, mx := range bounds {
				for _, mn := range bounds {
					for _, exMax := range []string{"", "("} {
						for _, exMin := range []string{"", "("} {
							args := []string{"ZREVRANGEBYSCORE", "z", exMax + mx, exMin + mn}
							if ws {
								args = append(args, "WITHSCORES")
							}
							prog = append(prog, cmd(args...))
							if thorough {
								for _, lim := range [][2]string{{"0", "1"}, {"1", "2"}, {"0", "-1"}, {"2", "10"}, {"5", "1"}} {
									prog = append(prog, cmd(append(append([]string{}, args...), "LIMIT", lim[0], lim[1])...))
								}
							}
						}
					}
				}
			}
			add(fmt.Sprintf("ZREVRANGEBYSCORE-grid-ws%v-tied%v", ws, tied), prog)
		}
	}
	// ZREVRANGEBYSCORE ... LIMIT offset count: every offset in 0..6 and count in -1..11 over sets of 0..5 members,
	// with and without WITHSCORES (a window computed in reply positions instead of members shows where
	// members-left < count < 2 x members-left)
	for _, ws := range []bool{false, true} {
		prog := []resp.Value{}
		for size := 0; size <= 5; size++ {
			if size > 0 {
				prog = append(prog, cmd("ZADD", "zl", fmt.Sprint(size), "m"+fmt.Sprint(size)))
			}
			for off := 0; off <= 6; off++ {
				for cnt := -1; cnt <= 11; cnt++ {
					args := []string{"ZREVRANGEBYSCORE", "zl", "+inf", "-inf"}
					if ws {
						args = append(args, "WITHSCORES")
					}
					prog = append(prog, cmd(append(args, "LIMIT", fmt.Sprint(off), fmt.Sprint(cnt))...))
				}
			}
		}
		add(fmt.Sprintf("ZREVRANGEBYSCORE-limit-grid-ws%v", ws), prog)
	}
	// counters at the 64-bit boundary
	var prog []resp.Value
	for _, v := range []string{"9223372036854775807", "9223372036854775806", "-9223372036854775808", "-9223372036854775807", "0", "abc", "1.5", "", " 1", "12x"} {
		for _, op := range [][]string{{"INCR", "c"}, {"DECR", "c"}, {"INCRBY", "c", "1"}, {"INCRBY", "c", "9223372036854775807"}, {"INCRBY", "c", "-9223372036854775808"}, {"DECRBY", "c", "9223372036854775807"}, {"DECRBY", "c", "-9223372036854775808"}, {"DECRBY", "c", "1"},
			// what is not an integer: a lone sign, a sign pair, digits behind a space
			{"INCRBY", "c", "-"}, {"INCRBY", "c", "+"}, {"DECRBY", "c", "-"}, {"DECRBY", "c", "+"}, {"INCRBY", "c", "--1"}, {"INCRBY", "c", ""}, {"DECRBY", "c", "1 "}} {
			prog = append(prog, cmd("SET", "c", v), cmd(op...), cmd("GET", "c"))
		}
	}
	prog = append(prog, cmd("DEL", "c"), cmd("INCR", "c"), cmd("DEL", "c"), cmd("DECRBY", "c", "5"), cmd("GET", "c"))
	add("counter-boundaries", prog)
	// counters on every stored string of length <= 3 over {-, +, 0, 1, 9, space, .}: which spellings count as integers
	for _, op := range [][]string{{"INCR", "c"}, {"DECRBY", "c", "5"}} {
		var prog []resp.Value
		for _, v := range gen.Strings([]byte("-+019 ."), 3) {
			prog = append(prog, cmd("SET", "c", string(v)), cmd(op...), cmd("GET", "c"))
		}
		add("counter-spellings-"+op[0], prog)
	}
}

var c12vals = []string{"a", "", "hello", "10", "-3", "9223372036854775807", "-9223372036854775808", "1.5", "x\r\ny", "\x00\xff", "9223372036854775800", "-0", "+1", "01", "0"}

// cfgName: a private parameter name per field; some carry upper-case letters (each name is always spelled the
// same way, so the expectation does not depend on whether parameter names are case-sensitive)
func cfgName(f string) string {
	switch f {
	case "f2":
		return "Verif-F2"
	case "f3":
		return "VERIF-MaxF3"
	}
	return "verif-" + f
}

func c12random(r *rng.R) []resp.Value {
	cmd := resp.Cmd
	sk := func() string { return rng.Pick(r, []string{"s1", "s2", "s3"}) }
	hk := func() string { return rng.Pick(r, []string{"h1", "h2"}) }
	f := func() string { return rng.Pick(r, []string{"f1", "f2", "f3", ""}) }
	v := func() string { return rng.Pick(r, c12vals) }
	m := func() string { return rng.Pick(r, []string{"m1", "m2", "m3", "m4"}) }
	n := 1 + r.Intn(25)
	var prog []resp.Value
	for i := 0; i < n; i++ {
		switch r.Intn(39) {
		case 34:
			// times to live, a day away: INCR/DECR/INCRBY/DECRBY/APPEND keep them, SET/MSET/GETSET drop them
			prog = append(prog, cmd("EXPIRE", sk(), "100000"))
		case 35:
			prog = append(prog, cmd("TTL", sk()))
		case 36:
			prog = append(prog, cmd("SET", sk(), v(), "KEEPTTL"))
		case 37:
			prog = append(prog, cmd("SET", sk(), v(), rng.Pick(r, []string{"EX", "PX"}), "100000000"))
		case 38:
			prog = append(prog, cmd("TTL", sk()))
		case 0:
			prog = append(prog, cmd("PING"))
		case 1:
			prog = append(prog, cmd("PING", rng.Pick(r, []string{v() + "p", v(), ""})))
		case 2:
			prog = append(prog, cmd("ECHO", v()))
		case 3:
			prog = append(prog, cmd("MSET", sk(), v(), sk(), v()))
		case 4:
			prog = append(prog, cmd("MSETNX", sk(), v(), sk(), v()))
		case 5:
			prog = append(prog, cmd("MGET", sk(), sk(), "missing", sk()))
		case 6:
			prog = append(prog, cmd("APPEND", sk(), v()))
		case 7:
			prog = append(prog, cmd("INCR", sk()))
		case 8:
			prog = append(prog, cmd("DECR", sk()))
		case 9:
			prog = append(prog, cmd("INCRBY", sk(), rng.Pick(r, []string{"1", "-1", "100", "9223372036854775807", "-9223372036854775808", "0", "-", "+"})))
		case 10:
			prog = append(prog, cmd("DECRBY", sk(), rng.Pick(r, []string{"1", "-1", "100", "9223372036854775807", "-9223372036854775808", "0"})))
		case 11:
			prog = append(prog, cmd("STRLEN", sk()))
		case 12:
			if r.Chance(1, 8) {
				prog = append(prog, cmd(rng.Pick(r, []string{"GETRANGE", "SUBSTR"}), sk(), rng.Pick(r, []string{"-", "+", "", "0"}), rng.Pick(r, []string{"-", "+", "2", "x"})))
				break
			}
			prog = append(prog, cmd("GETRANGE", sk(), fmt.Sprint(r.Range(-8, 8)), fmt.Sprint(r.Range(-8, 8))))
		case 13:
			prog = append(prog, cmd("HMSET", hk(), f(), v(), f(), v()))
		case 14:
			prog = append(prog, cmd("HMGET", hk(), f(), "nofield", f()))
		case 15:
			prog = append(prog, cmd("HEXISTS", hk(), f()))
		case 16:
			prog = append(prog, cmd("HKEYS", hk()))
		case 17:
			prog = append(prog, cmd("HVALS", hk()))
		case 18:
			prog = append(prog, cmd("HLEN", hk()))
		case 19:
			prog = append(prog, cmd("HSTRLEN", hk(), f()))
		case 20:
			prog = append(prog, cmd("SADD", "t1", m(), m()))
		case 21:
			prog = append(prog, cmd("SREM", "t1", m()))
		case 22:
			prog = append(prog, cmd("SCARD", rng.Pick(r, []string{"t1", "t2"})))
		case 23:
			prog = append(prog, cmd("SISMEMBER", rng.Pick(r, []string{"t1", "t2"}), m()))
		case 24:
			prog = append(prog, cmd("ZADD", "z1", fmt.Sprint(r.Range(-3, 3)), m()))
		case 25:
			prog = append(prog, cmd("ZCARD", rng.Pick(r, []string{"z1", "z2"})))
		case 26:
			a := []string{"ZREVRANGE", "z1", fmt.Sprint(r.Range(-5, 5)), fmt.Sprint(r.Range(-5, 5))}
			if r.Bool() {
				a = append(a, "WITHSCORES")
			}
			prog = append(prog, cmd(a...))
		case 27:
			a := []string{"ZREVRANGEBYSCORE", "z1", rng.Pick(r, []string{"+inf", "3", "(2", "1"}), rng.Pick(r, []string{"-inf", "-3", "(0", "1"})}
			if r.Bool() {
				a = append(a, "WITHSCORES")
			}
			prog = append(prog, cmd(a...))
		case 28:
			prog = append(prog, cmd("CONFIG", "SET", cfgName(f()), v()))
		case 29:
			prog = append(prog, cmd("CONFIG", "GET", cfgName(f()), cfgName(f()), "verif-never"))
		case 30:
			prog = append(prog, cmd("SET", sk(), v()))
		case 31:
			prog = append(prog, cmd("DEL", sk(), hk()))
		case 32:
			prog = append(prog, cmd("HSET", hk(), f(), v()))
		case 33:
			prog = append(prog, cmd("HDEL", hk(), f()))
		}
	}
	return prog
}

func c12get(idx int) (string, []resp.Value) {
	if idx < len(c12.grids) {
		return c12.names[idx], c12.grids[idx]
	}
	r := rng.New(c12.seed, rng.Str("C12"), uint64(idx))
	return "random", c12random(r)
}

// c12tags describes the argument shape of a step from the model's point of view.
func c12tags(m *model.State, argv []string) string {
	var t []string
	if len(argv) > 1 {
		if e, ok := m.Keys[argv[1]]; !ok {
			t = append(t, "key-missing")
		} else {
			t = append(t, "key-"+e.Kind.String())
			if e.Kind == model.KString {
				if _, isInt := model.ParseInt(e.Str); isInt {
					t = append(t, "int-value")
				} else {
					t = append(t, "non-int-value")
				}
				if e.Str == "" {
					t = append(t, "empty-value")
				}
			}
		}
	}
	for _, a := range argv[min(2, len(argv)):] {
		if strings.EqualFold(a, "WITHSCORES") {
			t = append(t, "withscores")
		}
		if strings.EqualFold(a, "LIMIT") {
			t = append(t, "limit")
		}
	}
	return strings.Join(t, ",")
}

func dumpDiff(a, b map[string]string) string {
	var ks []string
	for k := range a {
		ks = append(ks, k)
	}
	for k := range b {
		if _, ok := a[k]; !ok {
			ks = append(ks, k)
		}
	}
	sort.Strings(ks)
	var out []string
	for _, k := range ks {
		if a[k] != b[k] {
			out = append(out, fmt.Sprintf("%q: store=%s model=%s", k, a[k], b[k]))
		}
	}
	return strings.Join(out, "; ")
}

func c12run(idx int) run.Result {
	var res run.Result
	res.Idx = idx
	name, prog := c12get(idx)
	res.Classes = []string{strings.SplitN(name, "-", 2)[0]}
	stream, ends := encodeReqs(prog)
	res.Key = gen.Hash64(stream)
	res.NonTrivial = true
	st := refstore.New()
	pr := runPipe(newServer(st), prog, chunkAt(stream, ends), sconn.Script{End: sconn.EOF})
	if pr.TimedOut {
		res.Inconclusive = "watchdog"
		return res
	}
	m := model.New()
	desc := func(i int, extra map[string]any) any {
		lo := i - 6
		if lo < 0 {
			lo = 0
		}
		hi := i + 1
		if hi > len(prog) {
			hi = len(prog)
		}
		d := map[string]any{"program": name, "step": i, "steps_before_and_at": reqStrings(prog[lo:hi]), "program_len": len(prog)}
		if len(prog) <= 40 {
			d["full_program"] = reqStrings(prog)
		}
		for k, v := range extra {
			d[k] = v
		}
		return d
	}
	if pr.Panic != "" {
		res.Violate("C12:panic", "the connection loop completes", pr.Panic, desc(0, nil))
		return res
	}
	for i, req := range prog {
		argv := argvOf(req)
		tags := c12tags(m, argv)
		want := m.Exec(argv)
		res.Count("steps", 1)
		res.Keys = append(res.Keys, gen.Hash64([]byte(strings.Join(argv, "\x00")+"|"+tags)))
		if i >= len(pr.Frames) {
			res.Violate("C12:"+strings.ToUpper(argv[0])+":no-reply:"+tags, "every command is answered", fmt.Sprintf("step %d %v: no reply (model: %s)", i, argv, want), desc(i, nil))
			return res
		}
		got := pr.Frames[i]
		if !sameReply(argv[0], argv, got, want) {
			res.Violate(fmt.Sprintf("C12:%s:%s:model=%s:got=%s", strings.ToUpper(argv[0]), tags, replyKind(want), replyKind(got)),
				"the reply equals the reply Redis defines (executable model) for this stored state and these arguments",
				fmt.Sprintf("step %d %q: got %s, model %s", i, argv, clipS(got.String(), 300), clipS(want.String(), 300)), desc(i, nil))
			return res
		}
	}
	// final contents of the reference store vs the model state
	sd, md := st.Dump(), m.Dump()
	if d := dumpDiff(sd, md); d != "" {
		res.Violate("C12:state:"+name, "the store is left in the state Redis defines", d, desc(len(prog)-1, nil))
		return res
	}
	if idx%101 == 0 {
		res.Sample = map[string]any{"program": name, "steps": len(prog), "first_steps": reqStrings(prog[:min(len(prog), 6)])}
	}
	return res
}

func init() {
	run.Register(&run.Prop{
		ID: "C12", Level: "exploration",
		Rule: func(tier string) string {
			return "case = one command program run through the real connection loop with a reference store (Redis-like primitives over an executable model state, one mutex) as handler, and through the executable Redis model directly; every reply compared as decoded values (status vs bulk, set/hash order, error text and float formatting insensitive) and the final store contents compared with the model state. Exhaustive grids: GETRANGE and SUBSTR on strings of length 0..6 x start,end in -9..9 (and a missing key), and on strings of length 0..3 x start,end over 11 values from -2^63 to 2^63-1; ZREVRANGE on sets of size 0..5 x start,stop in -7..7 x {plain, WITHSCORES} x {distinct, tied scores}; ZREVRANGEBYSCORE over 6x6 bounds x inclusive/exclusive x WITHSCORES x tied with LIMIT, and LIMIT offset 0..6 x count -1..11 over sets of 0..5 members with and without WITHSCORES; counters at the 64-bit boundary and on non-integers, and on every stored string of length <= 3 over {-, +, 0, 1, 9, space, .}. Then seeded random programs (<=25 steps, 3 keys, value pool with integers near +-2^63, non-integers, empty, binary) over PING, ECHO, MSET, MSETNX, MGET, APPEND, INCR/DECR/INCRBY/DECRBY, STRLEN, GETRANGE, HMSET, HMGET, HEXISTS, HKEYS, HVALS, HLEN, HSTRLEN, SCARD, SISMEMBER, ZCARD, ZREVRANGE, ZREVRANGEBYSCORE, CONFIG SET/GET, and - as a logical flag without a clock - times to live (EXPIRE a day away, SET with KEEPTTL / EX / PX, TTL: counters and APPEND keep a key's time to live, SET/MSET/GETSET drop it). distinct_nontrivial = distinct (command argv, model-state tags) steps"
		},
		Exhaustive:  func(string) bool { return false },
		Assumptions: []string{"the executable model in /verif/harness/model (written from the Redis command reference, own unit tests) is the reference", "integer syntax follows Redis string2ll (no '+', no leading zeros); such tokens are not generated", "each key is used with one data type (string commands on string keys, hash commands on hash keys, ...): what MGET/MSETNX answer for a key holding another type is not explored"},
		Setup: func(tier string, seed uint64) int {
			c12.seed, c12.tier = seed, tier
			c12buildGrids(true)
			return len(c12.grids) + map[string]int{"quick": 6000, "thorough": 1000000}[tier]
		},
		Run:           c12run,
		Describe:      func(idx int) any { n, p := c12get(idx); return map[string]any{"sig": n, "program": n, "steps": len(p)} },
		Chunk:         50,
		MinConclusive: 200,
	})
}
