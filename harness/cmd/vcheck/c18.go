package main

import (
	"fmt"
	"strings"

	exsrv "github.com/cybergarage/go-redis/examples/go-redisd/server"
	"verif/gen"
	"verif/model"
	"verif/resp"
	"verif/rng"
	"verif/run"
	"verif/sconn"
)

var c18 struct {
	seed   uint64
	tier   string
	exh    map[string][][]string // type -> concrete op alphabet for the exhaustive programs
	types  []string
	nExh   int
	perTyp []int
}

var c18vals = []string{"v1", "", "a\r\nb", "10", "\x00\xffbin"}
var c18members = []string{"m1", "m2", "m3", "m4"}

// c18ops: the concrete operation alphabet for exhaustive short programs.
func c18alphabet(typ string) [][]string {
	var ops [][]string
	add := func(a ...string) { ops = append(ops, a) }
	ks := []string{"a", "b"}
	for _, k := range ks {
		add("DEL", k)
		add("EXISTS", k)
		add("TYPE", k)
		for _, k2 := range ks {
			add("RENAME", k, k2)
			add("RENAMENX", k, k2)
		}
	}
	add("KEYS", "*")
	switch typ {
	case "string":
		for _, k := range ks {
			for _, v := range []string{"x", "7"} {
				add("SET", k, v)
				add("SETNX", k, v)
				add("GETSET", k, v)
				add("APPEND", k, v)
			}
			add("GET", k)
			add("INCR", k)
			add("STRLEN", k)
		}
		add("MGET", "a", "b")
		add("MSETNX", "a", "1", "b", "2")
	case "hash":
		for _, k := range ks {
			for _, f := range []string{"f", "g"} {
				for _, v := range []string{"x", "y"} {
					add("HSET", k, f, v)
				}
				add("HSETNX", k, f, "z")
				add("HGET", k, f)
				add("HDEL", k, f)
				add("HEXISTS", k, f)
			}
			add("HGETALL", k)
			add("HLEN", k)
			add("HKEYS", k)
		}
	case "list":
		for _, k := range ks {
			for _, v := range []string{"x", "y"} {
				add("LPUSH", k, v)
				add("RPUSH", k, v)
				add("LPUSHX", k, v)
			}
			add("RPUSH", k, "p", "q")
			add("LPOP", k)
			add("RPOP", k)
			add("LPOP", k, "2")
			add("LRANGE", k, "0", "-1")
			add("LINDEX", k, "0")
			add("LINDEX", k, "-1")
			add("LLEN", k)
		}
	case "set":
		for _, k := range ks {
			for _, m := range []string{"x", "y"} {
				add("SADD", k, m)
				add("SREM", k, m)
				add("SISMEMBER", k, m)
			}
			add("SADD", k, "x", "x", "y")
			add("SMEMBERS", k)
			add("SCARD", k)
		}
	case "zset":
		for _, k := range ks {
			for _, m := range []string{"x", "y"} {
				add("ZADD", k, "1", m)
				add("ZADD", k, "3", m)
				add("ZREM", k, m)
				add("ZSCORE", k, m)
				add("ZINCRBY", k, "2", m)
			}
			add("ZRANGE", k, "0", "-1", "WITHSCORES")
			add("ZREVRANGE", k, "0", "-1")
			add("ZRANGEBYSCORE", k, "2", "+inf")
			add("ZCARD", k)
		}
	}
	return ops
}

type c18prog struct {
	Name  string
	Steps [][]string
	Types map[string]string
}

func c18random(r *rng.R) c18prog {
	// 6 keys bound to types; two types per program so that same-type renames are frequent
	t1, t2 := rng.Pick(r, c18.types), rng.Pick(r, c18.types)
	p := c18prog{Name: "random", Types: map[string]string{}}
	keys := []string{"k0", "k1", "k2", "k3", "k\r\n4", "k5"}
	for i, k := range keys {
		if i%2 == 0 {
			p.Types[k] = t1
		} else {
			p.Types[k] = t2
		}
	}
	keyOf := func(t string) string {
		for {
			k := rng.Pick(r, keys)
			if p.Types[k] == t {
				return k
			}
		}
	}
	v := func() string { return rng.Pick(r, c18vals) }
	m := func() string { return rng.Pick(r, c18members) }
	n := 1 + r.Intn(40)
	add := func(a ...string) { p.Steps = append(p.Steps, a) }
	for i := 0; i < n; i++ {
		t := t1
		if r.Bool() {
			t = t2
		}
		k := keyOf(t)
		if r.Chance(1, 5) {
			// generic commands
			switch r.Intn(8) {
			case 0:
				add("DEL", k)
			case 1:
				add("DEL", k, keyOf(t), "nokey")
			case 2:
				add("EXISTS", k, keyOf(t2), "nokey", k)
			case 3:
				add("TYPE", k)
			case 4:
				add("KEYS", rng.Pick(r, []string{"*", "k?", "k*", "k1", "nokey"}))
			case 5:
				add("RENAME", k, keyOf(t)) // same type: may be the same key, an existing or a missing key
			case 6:
				add("RENAMENX", k, keyOf(t))
			case 7:
				add("RENAME", k, k)
			}
			continue
		}
		switch t {
		case "string":
			switch r.Intn(15) {
			case 0, 1:
				add("SET", k, v())
			case 2:
				add("GET", k)
			case 3:
				add("GETSET", k, v())
			case 4:
				add("SETNX", k, v())
			case 5:
				add("MSET", k, v(), keyOf(t), v())
			case 6:
				add("MGET", k, keyOf(t), "nokey")
			case 7:
				add("MSETNX", k, v(), keyOf(t), v())
			case 8:
				add("APPEND", k, v())
			case 9:
				add(rng.Pick(r, []string{"INCR", "DECR"}), k)
			case 10:
				add(rng.Pick(r, []string{"INCRBY", "DECRBY"}), k, rng.Pick(r, []string{"1", "5", "-3"}))
			case 11:
				add("STRLEN", k)
			case 12:
				add("GETRANGE", k, fmt.Sprint(r.Range(-4, 4)), fmt.Sprint(r.Range(-4, 6)))
			case 13:
				add("SET", k, v(), rng.Pick(r, []string{"XX", "GET"}))
			case 14:
				add("SETEX", k, "100", v())
			}
		case "hash":
			f := rng.Pick(r, []string{"f1", "f2", "", "f\r\n3"})
			switch r.Intn(12) {
			case 0, 1:
				add("HSET", k, f, v())
			case 2:
				add("HSETNX", k, f, v())
			case 3:
				add("HGET", k, f)
			case 4:
				add("HDEL", k, f, "nofield")
			case 5:
				add("HGETALL", k)
			case 6:
				add("HMSET", k, f, v(), "f2", v())
			case 7:
				add("HMGET", k, f, "nofield", "f1")
			case 8:
				add("HEXISTS", k, f)
			case 9:
				add(rng.Pick(r, []string{"HKEYS", "HVALS"}), k)
			case 10:
				add("HLEN", k)
			case 11:
				add("HSTRLEN", k, f)
			}
		case "list":
			switch r.Intn(12) {
			case 0:
				add("LPUSH", k, v())
			case 1:
				add("RPUSH", k, v())
			case 2:
				add(rng.Pick(r, []string{"LPUSH", "RPUSH"}), k, v(), v(), v())
			case 3:
				add(rng.Pick(r, []string{"LPUSHX", "RPUSHX"}), k, v())
			case 4:
				add("LPOP", k)
			case 5:
				add("RPOP", k)
			case 6:
				add(rng.Pick(r, []string{"LPOP", "RPOP"}), k, rng.Pick(r, []string{"2", "3", "10"}))
			case 7, 8:
				add("LRANGE", k, fmt.Sprint(r.Range(-5, 3)), fmt.Sprint(r.Range(-3, 6)))
			case 9:
				add("LINDEX", k, fmt.Sprint(r.Range(-5, 5)))
			case 10, 11:
				add("LLEN", k)
			}
		case "set":
			switch r.Intn(6) {
			case 0, 1:
				add("SADD", k, m(), m())
			case 2:
				add("SREM", k, m(), m())
			case 3:
				add("SMEMBERS", k)
			case 4:
				add("SCARD", k)
			case 5:
				add("SISMEMBER", k, m())
			}
		case "zset":
			sc := func() string {
				if r.Chance(1, 12) {
					return rng.Pick(r, []string{"inf", "-inf", "+inf"})
				}
				return rng.Pick(r, []string{"1", "2", "3", "-1", "2.5", "10"})
			}
			switch r.Intn(16) {
			case 14:
				// ranks count from the high end with REV
				a := []string{"ZRANGE", k, fmt.Sprint(r.Range(-4, 3)), fmt.Sprint(r.Range(-3, 5)), "REV"}
				if r.Bool() {
					a = append(a, "WITHSCORES")
				}
				add(a...)
			case 15:
				// BYSCORE REV takes max first
				a := []string{"ZRANGE", k, rng.Pick(r, []string{"+inf", "3", "(3", "2"}), rng.Pick(r, []string{"-inf", "1", "(1", "2"}), "BYSCORE", "REV"}
				if r.Chance(1, 3) {
					a = append(a, "LIMIT", fmt.Sprint(r.Intn(3)), rng.Pick(r, []string{"1", "2", "-1"}))
				}
				if r.Bool() {
					a = append(a, "WITHSCORES")
				}
				add(a...)
			case 0, 1, 2:
				add("ZADD", k, sc(), m())
			case 3:
				add("ZADD", k, sc(), m(), sc(), m())
			case 4:
				add("ZREM", k, m(), m())
			case 5:
				add("ZSCORE", k, m())
			case 6:
				add("ZINCRBY", k, rng.Pick(r, []string{"1", "-2", "0.5", "1", "-2", "0.5", "inf", "-inf"}), m())
			case 7:
				a := []string{"ZRANGE", k, fmt.Sprint(r.Range(-4, 3)), fmt.Sprint(r.Range(-3, 5))}
				if r.Bool() {
					a = append(a, "WITHSCORES")
				}
				add(a...)
			case 8:
				a := []string{"ZRANGEBYSCORE", k, rng.Pick(r, []string{"-inf", "1", "(1", "2"}), rng.Pick(r, []string{"+inf", "3", "(3", "2"})}
				if r.Bool() {
					a = append(a, "WITHSCORES")
				}
				if r.Chance(1, 3) {
					a = append(a, "LIMIT", fmt.Sprint(r.Intn(3)), rng.Pick(r, []string{"1", "2", "-1"}))
				}
				add(a...)
			case 9:
				a := []string{"ZREVRANGE", k, fmt.Sprint(r.Range(-4, 3)), fmt.Sprint(r.Range(-3, 5))}
				if r.Bool() {
					a = append(a, "WITHSCORES")
				}
				add(a...)
			case 10:
				add("ZCARD", k)
			case 11:
				add("ZREVRANGEBYSCORE", k, rng.Pick(r, []string{"+inf", "3", "(3"}), rng.Pick(r, []string{"-inf", "1", "(1"}))
			case 12:
				add("ZADD", k, rng.Pick(r, []string{"NX", "XX", "CH", "GT", "LT"}), sc(), m())
			case 13:
				add("ZRANGE", k, "0", "-1", "REV")
			}
		}
	}
	return p
}

func c18get(idx int) c18prog {
	if idx < c18.nExh {
		// exhaustive programs of length <= 3 over the type's concrete alphabet (mixed-radix index)
		off := idx
		for ti, t := range c18.types {
			if off >= c18.perTyp[ti] {
				off -= c18.perTyp[ti]
				continue
			}
			ops := c18.exh[t]
			n := len(ops)
			p := c18prog{Name: "exhaustive-" + t}
			// lengths 1,2,3: n + n^2 + n^3
			switch {
			case off < n:
				p.Steps = [][]string{ops[off]}
			case off < n+n*n:
				o := off - n
				p.Steps = [][]string{ops[o/n], ops[o%n]}
			default:
				o := off - n - n*n
				p.Steps = [][]string{ops[o/(n*n)], ops[(o/n)%n], ops[o%n]}
			}
			// every exhaustive program ends with an observation of both keys
			p.Steps = append(p.Steps, []string{"EXISTS", "a", "b"}, []string{"KEYS", "*"})
			return p
		}
	}
	r := rng.New(c18.seed, rng.Str("C18"), uint64(idx))
	return c18random(r)
}

// c18tags: facts about a step computed from the MODEL state before the step.
func c18tags(m *model.State, argv []string, readOfMissing map[string]bool) string {
	var t []string
	cmd := strings.ToUpper(argv[0])
	if len(argv) > 1 {
		k := argv[1]
		e, ok := m.Keys[k]
		if !ok {
			t = append(t, "key-missing")
			if readOfMissing[k] {
				t = append(t, "read-of-missing-key-earlier")
			}
		}
		if cmd == "RENAME" || cmd == "RENAMENX" {
			if len(argv) > 2 {
				if argv[1] == argv[2] {
					t = append(t, "src==dst")
				} else if _, ok2 := m.Keys[argv[2]]; ok2 {
					t = append(t, "dst-exists")
				}
			}
		}
		if ok {
			switch e.Kind {
			case model.KSet:
				for _, a := range argv[2:] {
					if e.Set[a] {
						t = append(t, "member-exists")
						break
					}
				}
			case model.KZSet:
				for _, a := range argv[2:] {
					if _, has := e.ZSet[a]; has {
						t = append(t, "member-exists")
						break
					}
				}
				seen := map[float64]bool{}
				for _, s := range e.ZSet {
					if seen[s] {
						t = append(t, "ties")
						break
					}
					seen[s] = true
				}
			case model.KHash:
				if len(argv) > 2 {
					if _, has := e.Hash[argv[2]]; has {
						t = append(t, "field-exists")
					}
				}
			case model.KList:
				if (cmd == "LPOP" || cmd == "RPOP") && len(argv) > 2 {
					var c int
					fmt.Sscan(argv[2], &c)
					if c > len(e.List) {
						t = append(t, "count>len")
					}
				}
				if (cmd == "LPOP" || cmd == "RPOP") && len(argv) == 2 && len(e.List) == 1 {
					t = append(t, "list-becomes-empty")
				}
			}
		}
		if (cmd == "LPOP" || cmd == "RPOP") && len(argv) > 2 {
			t = append(t, "count-given")
		}
	}
	for _, a := range argv[1:] {
		if strings.ContainsAny(a, "\r\n") {
			t = append(t, "arg-has-CRLF")
			break
		}
	}
	for _, a := range argv[2:] {
		switch strings.ToUpper(a) {
		case "WITHSCORES", "LIMIT", "NX", "XX", "CH", "GT", "LT", "REV", "GET":
			t = append(t, "opt-"+strings.ToUpper(a))
		}
	}
	return strings.Join(t, ",")
}

type c18div struct {
	Step   int
	Sig    string
	Detail string
}

// c18exec runs a program against the example store and the model and returns
// the first divergence.
func c18exec(steps [][]string) (*c18div, string, int) {
	reqs := make([]resp.Value, len(steps))
	for i, s := range steps {
		reqs[i] = resp.Cmd(s...)
	}
	stream, ends := encodeReqs(reqs)
	pr := runPipe(exsrv.NewServer().Server, reqs, chunkAt(stream, ends), sconn.Script{End: sconn.EOF})
	if pr.TimedOut {
		return nil, "watchdog", 0
	}
	if pr.Panic != "" {
		return &c18div{Step: 0, Sig: "C18:panic:" + panicFrame(pr.Stack), Detail: pr.Panic}, "", 0
	}
	m := model.New()
	readOfMissing := map[string]bool{}
	for i, argv := range steps {
		tags := c18tags(m, argv, readOfMissing)
		_, existed := m.Keys[argvKey(argv)]
		want := m.Exec(argv)
		if !existed && len(argv) > 1 {
			if _, now := m.Keys[argv[1]]; !now {
				readOfMissing[argv[1]] = true
			}
		}
		if i >= len(pr.Frames) {
			return &c18div{Step: i, Sig: fmt.Sprintf("C18:%s:%s:model=%s:got=none", strings.ToUpper(argv[0]), tags, replyKind(want)), Detail: fmt.Sprintf("step %d %q: no reply, model %s", i, argv, want)}, "", i
		}
		got := pr.Frames[i]
		if !sameReply(argv[0], argv, got, want) {
			return &c18div{Step: i, Sig: fmt.Sprintf("C18:%s:%s:model=%s:got=%s", strings.ToUpper(argv[0]), tags, replyKind(want), replyKind(got)),
				Detail: fmt.Sprintf("step %d %q: example server answered %s, model %s", i, argv, clipS(got.String(), 300), clipS(want.String(), 300))}, "", i
		}
	}
	return nil, "", len(steps)
}

func argvKey(argv []string) string {
	if len(argv) > 1 {
		return argv[1]
	}
	return ""
}

func c18run(idx int) run.Result {
	var res run.Result
	res.Idx = idx
	p := c18get(idx)
	res.Classes = []string{p.Name}
	var flatSteps []string
	for _, s := range p.Steps {
		flatSteps = append(flatSteps, strings.Join(s, "\x00"))
	}
	res.Key = gen.Hash64([]byte(strings.Join(flatSteps, "\x01")))
	res.NonTrivial = len(p.Steps) >= 2
	div, inc, done := c18exec(p.Steps)
	res.Count("steps_compared", int64(done))
	if inc != "" {
		res.Inconclusive = inc
		return res
	}
	if div != nil {
		// shrink: drop steps while the same signature persists at the first divergence
		steps := append([][]string{}, p.Steps[:div.Step+1]...)
		for i := len(steps) - 2; i >= 0; i-- {
			cand := append(append([][]string{}, steps[:i]...), steps[i+1:]...)
			d2, _, _ := c18exec(cand)
			if d2 != nil && d2.Sig == div.Sig {
				steps = cand
			}
		}
		d3, _, _ := c18exec(steps)
		detail := div.Detail
		if d3 != nil {
			detail = d3.Detail
		}
		var prog []string
		for _, s := range steps {
			prog = append(prog, fmt.Sprintf("%q", s))
		}
		res.Violate(div.Sig, "every reply of the bundled example server equals that of the reference Redis model", detail,
			map[string]any{"program_kind": p.Name, "shrunk_program": prog, "original_length": len(p.Steps), "diverged_at_step": div.Step})
		return res
	}
	if idx%499 == 0 {
		var prog []string
		for i, s := range p.Steps {
			if i >= 8 {
				break
			}
			prog = append(prog, fmt.Sprintf("%q", s))
		}
		res.Sample = map[string]any{"program_kind": p.Name, "steps": len(p.Steps), "first_steps": prog}
	}
	return res
}

func init() {
	run.Register(&run.Prop{
		ID: "C18", Level: "exploration",
		Rule: func(tier string) string {
			ex := "strings and lists"
			if tier == "thorough" {
				ex = "strings, hashes, lists, sets and sorted sets"
			}
			return "case = one single-client command program run through the real connection loop with the bundled example server as handler and through the executable Redis model; replies compared as decoded values (status vs bulk, set/hash/KEYS order, float formatting and error text insensitive; sorted-set ranges in order). ALL programs of length <=3 over a concrete per-type alphabet (2 keys, 2 members/fields, 2 values, incl. DEL/EXISTS/TYPE/RENAME/RENAMENX onto itself and onto the other key, KEYS) for " + ex + ", each followed by EXISTS a b and KEYS *; then seeded random programs of length 1..40 over 6 keys (one with CRLF) bound to two data types per program, 4 members, 5 values (one empty, one with CRLF, one binary), with renames among same-type keys (onto itself, existing, missing), pops beyond the end, re-adds. No expiry. The comparison stops at the first divergence; its signature (command, model-state tags, model reply kind, observed reply kind) is computed from the model; the program is shrunk by dropping steps while the signature persists. distinct = hash of the program; non-trivial = >= 2 steps"
		},
		Exhaustive:  func(string) bool { return false },
		Assumptions: []string{"the executable model is the reference Redis", "commands whose Redis reply the handler interface cannot express are not generated: 'SET k v NX' (the handler cannot tell it from SETNX) and 'LPOP/RPOP k 1' (count 1 is indistinguishable from no count)"},
		Setup: func(tier string, seed uint64) int {
			c18.seed, c18.tier = seed, tier
			c18.types = []string{"string", "list", "hash", "set", "zset"}
			c18.exh = map[string][][]string{}
			c18.perTyp = nil
			c18.nExh = 0
			for i, t := range c18.types {
				c18.exh[t] = c18alphabet(t)
				n := len(c18.exh[t])
				cnt := n + n*n + n*n*n
				if tier == "quick" && i >= 2 {
					cnt = n + n*n // quick: length <= 2 for hash, set, zset
				}
				c18.perTyp = append(c18.perTyp, cnt)
				c18.nExh += cnt
			}
			return c18.nExh + map[string]int{"quick": 15000, "thorough": 1500000}[tier]
		},
		Run:           c18run,
		Describe:      func(idx int) any { p := c18get(idx); return map[string]any{"sig": p.Name, "steps": len(p.Steps)} },
		Chunk:         400,
		MinConclusive: 500,
	})
}
