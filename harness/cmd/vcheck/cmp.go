package main

import (
	"sort"
	"strconv"
	"strings"

	"verif/resp"
)

// strLike: a status line and a bulk string both decode to a string at the client.
func strLike(v resp.Value) (string, bool) {
	if (v.K == '+' || v.K == '$') && !v.Null {
		return string(v.B), true
	}
	return "", false
}

func isNil(v resp.Value) bool { return (v.K == '$' || v.K == '*') && v.Null }

func floatEq(a, b string) bool {
	fa, ea := strconv.ParseFloat(a, 64)
	fb, eb := strconv.ParseFloat(b, 64)
	return ea == nil && eb == nil && fa == fb
}

// scalarEq compares two non-array replies with the deliberate insensitivities:
// status vs bulk for a string value; error text; null bulk vs null array.
func scalarEq(got, want resp.Value, float bool) bool {
	if want.IsErr() || got.IsErr() {
		return want.IsErr() && got.IsErr()
	}
	if isNil(want) || isNil(got) {
		return isNil(want) && isNil(got)
	}
	if ws, ok := strLike(want); ok {
		gs, ok2 := strLike(got)
		if !ok2 {
			return false
		}
		if gs == ws {
			return true
		}
		return float && floatEq(gs, ws)
	}
	return resp.Equal(got, want)
}

func flat(v resp.Value) []string {
	out := make([]string, len(v.A))
	for i, e := range v.A {
		if s, ok := strLike(e); ok {
			out[i] = "s:" + s
		} else {
			out[i] = e.String()
		}
	}
	return out
}

// sameReply compares the implementation's reply with the model's for cmd.
func sameReply(cmd string, argv []string, got, want resp.Value) bool {
	cmd = strings.ToUpper(cmd)
	withScores := false
	for _, a := range argv {
		if strings.EqualFold(a, "WITHSCORES") {
			withScores = true
		}
	}
	if want.K != '*' || want.Null {
		float := cmd == "ZSCORE" || cmd == "ZINCRBY" || cmd == "ZADD"
		if got.K == '*' && !got.Null {
			return false
		}
		return scalarEq(got, want, float)
	}
	if got.K != '*' || got.Null || len(got.A) != len(want.A) {
		return false
	}
	switch cmd {
	case "CONFIG":
		// name/value pairs: parameter names compare without regard to letter case (a server may normalise them)
		if len(got.A)%2 != 0 {
			return false
		}
		g, w := flat(got), flat(want)
		for i := 0; i+1 < len(w); i += 2 {
			if !strings.EqualFold(g[i], w[i]) || g[i+1] != w[i+1] {
				return false
			}
		}
		return true
	case "SMEMBERS", "HKEYS", "HVALS", "KEYS":
		g, w := flat(got), flat(want)
		sort.Strings(g)
		sort.Strings(w)
		return strings.Join(g, "\x00") == strings.Join(w, "\x00")
	case "HGETALL":
		if len(got.A)%2 != 0 {
			return false
		}
		pair := func(v resp.Value) []string {
			f := flat(v)
			var ps []string
			for i := 0; i+1 < len(f); i += 2 {
				ps = append(ps, f[i]+"\x01"+f[i+1])
			}
			sort.Strings(ps)
			return ps
		}
		return strings.Join(pair(got), "\x00") == strings.Join(pair(want), "\x00")
	}
	for i := range want.A {
		if want.A[i].K == '*' && !want.A[i].Null {
			if !sameReply(cmd, argv, got.A[i], want.A[i]) {
				return false
			}
			continue
		}
		float := withScores && i%2 == 1
		if !scalarEq(got.A[i], want.A[i], float) {
			return false
		}
	}
	return true
}

func replyKind(v resp.Value) string {
	switch {
	case v.IsErr():
		return "error"
	case isNil(v):
		return "nil"
	case v.K == '*':
		return "array" + strconv.Itoa(len(v.A))
	case v.K == ':':
		return "int"
	}
	return "string"
}

func argvOf(v resp.Value) []string {
	out := make([]string, len(v.A))
	for i, e := range v.A {
		out[i] = string(e.B)
	}
	return out
}
