// Package double holds the test doubles: a recording UserCommandHandler, a
// recording tracer, and helpers to serve a scripted connection.
package double

import (
	"fmt"
	"math"
	"runtime"
	"strings"
	"sync"
	"time"

	"github.com/cybergarage/go-redis/redis"
	"github.com/cybergarage/go-redis/redis/glob"
	"verif/resp"
	"verif/sconn"
)

// Call is one recorded handler invocation.
type Call struct {
	Seq    uint64
	N      int    // 1-based index of the call on this handler
	Conn   string // connection UUID
	DB     int
	Auth   bool
	User   string // conn.UserName() as the handler sees it
	Pass   string // conn.Password() as the handler sees it ("" with HasPw=false: none presented)
	HasPw  bool
	UData  int64 // per-connection user-data counter observed (after increment)
	Method string
	Str    string     // canonical rendering: Method(args…), times rendered as T:*
	Time   *time.Time // the time argument, if the method has one
	Keys   []string   // string arguments (for attribution by token)
	Reply  resp.Value // what the double returned (Err != "" => error)
	Err    string
	NilMsg bool
}

// Script lets a test decide what a call returns. Returning handled=false
// falls back to the default deterministic reply.
type Script func(c *Call) (msg *redis.Message, err error, handled bool)

type RecHandler struct {
	mu     sync.Mutex
	Calls  []Call
	Script Script
	Yield  func() // called on entry of every call (outside the mutex)
	// ReplyShape returns the natural reply kind for a method so that derived
	// commands can digest it: see defaultReply.
}

func NewRec() *RecHandler { return &RecHandler{} }

func (h *RecHandler) Snapshot() []Call {
	h.mu.Lock()
	defer h.mu.Unlock()
	return append([]Call{}, h.Calls...)
}

func (h *RecHandler) Len() int {
	h.mu.Lock()
	defer h.mu.Unlock()
	return len(h.Calls)
}

// ---- canonical renderings ----

func Q(s string) string { return fmt.Sprintf("%q", s) }

func QS(ss []string) string {
	parts := make([]string, len(ss))
	for i, s := range ss {
		parts[i] = Q(s)
	}
	return "[" + strings.Join(parts, ",") + "]"
}

func F(f float64) string { return fmt.Sprintf("f:%016x", math.Float64bits(f)) }

func SetOpt(o redis.SetOption) string {
	var p []string
	if o.NX {
		p = append(p, "NX")
	}
	if o.XX {
		p = append(p, "XX")
	}
	if o.GET {
		p = append(p, "GET")
	}
	if o.KEEPTTL {
		p = append(p, "KEEPTTL")
	}
	if o.EX != 0 {
		p = append(p, fmt.Sprintf("EX=%d", int64(o.EX)))
	}
	if o.PX != 0 {
		p = append(p, fmt.Sprintf("PX=%d", int64(o.PX)))
	}
	if !o.EXAT.IsZero() {
		p = append(p, fmt.Sprintf("EXAT=%d", o.EXAT.UnixNano()))
	}
	if !o.PXAT.IsZero() {
		p = append(p, fmt.Sprintf("PXAT=%d", o.PXAT.UnixNano()))
	}
	return "{" + strings.Join(p, " ") + "}"
}

func flags(names []string, vals []bool) string {
	var p []string
	for i, n := range names {
		if vals[i] {
			p = append(p, n)
		}
	}
	return "{" + strings.Join(p, " ") + "}"
}

func ExpireOpt(o redis.ExpireOption) string {
	return flags([]string{"NX", "XX", "GT", "LT"}, []bool{o.NX, o.XX, o.GT, o.LT})
}

func ZAddOpt(o redis.ZAddOption) string {
	return flags([]string{"XX", "NX", "LT", "GT", "CH", "INCR"}, []bool{o.XX, o.NX, o.LT, o.GT, o.CH, o.INCR})
}

func ZRangeOpt(o redis.ZRangeOption) string {
	s := flags([]string{"BYSCORE", "BYLEX", "REV", "WITHSCORES", "MINEX", "MAXEX"}, []bool{o.BYSCORE, o.BYLEX, o.REV, o.WITHSCORES, o.MINEXCLUSIVE, o.MAXEXCLUSIVE})
	return fmt.Sprintf("%s off=%d cnt=%d", s, o.Offset, o.Count)
}

func ZMembers(ms []*redis.ZSetMember) string {
	parts := make([]string, len(ms))
	for i, m := range ms {
		if m == nil {
			parts[i] = "nil"
			continue
		}
		parts[i] = "(" + F(m.Score) + "," + Q(m.Member) + ")"
	}
	return "[" + strings.Join(parts, ",") + "]"
}

// ProbeKeys is the fixed key set a SCAN pattern is probed with.
var ProbeKeys = func() []string {
	alpha := []string{"a", "b", "."}
	out := []string{""}
	level := []string{""}
	for l := 0; l < 3; l++ {
		var next []string
		for _, s := range level {
			for _, c := range alpha {
				next = append(next, s+c)
			}
		}
		out = append(out, next...)
		level = next
	}
	return out
}()

func ProbePattern(g *glob.Glob) string {
	if g == nil {
		return "nil-pattern"
	}
	b := make([]byte, len(ProbeKeys))
	for i, k := range ProbeKeys {
		if g.MatchString(k) {
			b[i] = '1'
		} else {
			b[i] = '0'
		}
	}
	return string(b)
}

// ---- recording ----

const udKey = "verif-udata"

func (h *RecHandler) rec(conn *redis.Conn, method string, str string, t *time.Time, keys []string, natural resp.Value) (*redis.Message, error) {
	if h.Yield != nil {
		h.Yield()
	}
	// per-connection user data: a counter kept in the connection's sync.Map
	var ud int64
	if v, ok := conn.Load(udKey); ok {
		ud = v.(int64)
	}
	ud++
	conn.Store(udKey, ud)

	h.mu.Lock()
	user, _ := conn.UserName()
	pass, hasPw := conn.Password()
	c := Call{Seq: sconn.NextSeq(), N: len(h.Calls) + 1, Conn: conn.UUID().String(), DB: conn.Database(), Auth: conn.IsAuthrized(), User: user, Pass: pass, HasPw: hasPw,
		UData: ud, Method: method, Str: str, Time: t, Keys: keys}
	script := h.Script
	h.mu.Unlock()

	var msg *redis.Message
	var err error
	handled := false
	if script != nil {
		msg, err, handled = script(&c)
	}
	if !handled {
		c.Reply = natural
		msg = ToMessage(natural)
	} else {
		if err != nil {
			c.Err = err.Error()
		}
		if msg == nil {
			c.NilMsg = true
		} else {
			c.Reply = FromMessage(msg)
		}
	}
	h.mu.Lock()
	h.Calls = append(h.Calls, c)
	h.mu.Unlock()
	return msg, err
}

// ToMessage builds a redis.Message from a value tree through the public API.
func ToMessage(v resp.Value) *redis.Message {
	switch v.K {
	case '+':
		return redis.NewStringMessage(string(v.B))
	case '-':
		return redis.NewErrorMessage(fmt.Errorf("%s", v.B))
	case ':':
		m := redis.NewIntegerMessage(0)
		m.SetBytes(append([]byte{}, v.B...))
		return m
	case '$':
		if v.Null {
			return redis.NewNilMessage()
		}
		return redis.NewBulkMessage(string(v.B))
	case '*':
		m := redis.NewArrayMessage()
		for _, e := range v.A {
			m.Append(ToMessage(e))
		}
		return m
	}
	return nil
}

// FromMessage decodes a message by serializing it and strictly decoding the
// bytes; if that fails the value is marked with K=0.
func FromMessage(m *redis.Message) resp.Value {
	b, err := m.RESPBytes()
	if err != nil {
		return resp.Value{}
	}
	v, n, st, _ := resp.Decode(b)
	if st != resp.Complete || n != len(b) {
		return resp.Value{K: 0, B: b}
	}
	return v
}

func tag(method string, first string, n int) resp.Value {
	return resp.BulkS(fmt.Sprintf("r:%s:%s", method, first))
}

func (h *RecHandler) Del(conn *redis.Conn, keys []string) (*redis.Message, error) {
	return h.rec(conn, "Del", "Del("+QS(keys)+")", nil, keys, resp.Int(int64(len(keys))))
}
func (h *RecHandler) Exists(conn *redis.Conn, keys []string) (*redis.Message, error) {
	return h.rec(conn, "Exists", "Exists("+QS(keys)+")", nil, keys, resp.Int(int64(len(keys))))
}
func (h *RecHandler) Expire(conn *redis.Conn, key string, opt redis.ExpireOption) (*redis.Message, error) {
	t := opt.Time
	return h.rec(conn, "Expire", "Expire("+Q(key)+",T:*,"+ExpireOpt(opt)+")", &t, []string{key}, resp.Int(1))
}
func (h *RecHandler) Keys(conn *redis.Conn, pattern string) (*redis.Message, error) {
	return h.rec(conn, "Keys", "Keys("+Q(pattern)+")", nil, []string{pattern}, resp.Array(resp.BulkS("r:Keys:"+pattern)))
}
func (h *RecHandler) Rename(conn *redis.Conn, key string, newkey string, opt redis.RenameOption) (*redis.Message, error) {
	return h.rec(conn, "Rename", fmt.Sprintf("Rename(%s,%s,{NX:%v})", Q(key), Q(newkey), opt.NX), nil, []string{key, newkey}, tag("Rename", key, 0))
}
func (h *RecHandler) Type(conn *redis.Conn, key string) (*redis.Message, error) {
	return h.rec(conn, "Type", "Type("+Q(key)+")", nil, []string{key}, tag("Type", key, 0))
}
func (h *RecHandler) TTL(conn *redis.Conn, key string) (*redis.Message, error) {
	return h.rec(conn, "TTL", "TTL("+Q(key)+")", nil, []string{key}, tag("TTL", key, 0))
}
func (h *RecHandler) Scan(conn *redis.Conn, cursor int, opt redis.ScanOption) (*redis.Message, error) {
	return h.rec(conn, "Scan", fmt.Sprintf("Scan(%d,{match:%s count:%d})", cursor, ProbePattern(opt.MatchPattern), opt.Count), nil, nil,
		resp.Array(resp.BulkS("0"), resp.Array(resp.BulkS(fmt.Sprintf("r:Scan:%d", cursor)))))
}
func (h *RecHandler) Set(conn *redis.Conn, key string, val string, opt redis.SetOption) (*redis.Message, error) {
	return h.rec(conn, "Set", "Set("+Q(key)+","+Q(val)+","+SetOpt(opt)+")", nil, []string{key, val}, tag("Set", key, 0))
}
func (h *RecHandler) Get(conn *redis.Conn, key string) (*redis.Message, error) {
	return h.rec(conn, "Get", "Get("+Q(key)+")", nil, []string{key}, tag("Get", key, 0))
}
func (h *RecHandler) HDel(conn *redis.Conn, key string, fields []string) (*redis.Message, error) {
	return h.rec(conn, "HDel", "HDel("+Q(key)+","+QS(fields)+")", nil, append([]string{key}, fields...), resp.Int(int64(len(fields))))
}
func (h *RecHandler) HSet(conn *redis.Conn, key string, field string, val string, opt redis.HSetOption) (*redis.Message, error) {
	return h.rec(conn, "HSet", fmt.Sprintf("HSet(%s,%s,%s,{NX:%v})", Q(key), Q(field), Q(val), opt.NX), nil, []string{key, field, val}, resp.Int(1))
}
func (h *RecHandler) HGet(conn *redis.Conn, key string, field string) (*redis.Message, error) {
	return h.rec(conn, "HGet", "HGet("+Q(key)+","+Q(field)+")", nil, []string{key, field}, tag("HGet", key+"/"+field, 0))
}
func (h *RecHandler) HGetAll(conn *redis.Conn, key string) (*redis.Message, error) {
	return h.rec(conn, "HGetAll", "HGetAll("+Q(key)+")", nil, []string{key}, resp.Array(resp.BulkS("f1"), resp.BulkS("r:HGetAll:"+key), resp.BulkS("f2"), resp.BulkS("v2")))
}
func (h *RecHandler) LPush(conn *redis.Conn, key string, elements []string, opt redis.PushOption) (*redis.Message, error) {
	return h.rec(conn, "LPush", fmt.Sprintf("LPush(%s,%s,{X:%v})", Q(key), QS(elements), opt.X), nil, append([]string{key}, elements...), resp.Int(int64(len(elements))))
}
func (h *RecHandler) RPush(conn *redis.Conn, key string, elements []string, opt redis.PushOption) (*redis.Message, error) {
	return h.rec(conn, "RPush", fmt.Sprintf("RPush(%s,%s,{X:%v})", Q(key), QS(elements), opt.X), nil, append([]string{key}, elements...), resp.Int(int64(len(elements))))
}
func (h *RecHandler) LPop(conn *redis.Conn, key string, count int) (*redis.Message, error) {
	return h.rec(conn, "LPop", fmt.Sprintf("LPop(%s,%d)", Q(key), count), nil, []string{key}, tag("LPop", key, 0))
}
func (h *RecHandler) RPop(conn *redis.Conn, key string, count int) (*redis.Message, error) {
	return h.rec(conn, "RPop", fmt.Sprintf("RPop(%s,%d)", Q(key), count), nil, []string{key}, tag("RPop", key, 0))
}
func (h *RecHandler) LRange(conn *redis.Conn, key string, start int, stop int) (*redis.Message, error) {
	return h.rec(conn, "LRange", fmt.Sprintf("LRange(%s,%d,%d)", Q(key), start, stop), nil, []string{key}, resp.Array(resp.BulkS("r:LRange:"+key)))
}
func (h *RecHandler) LIndex(conn *redis.Conn, key string, index int) (*redis.Message, error) {
	return h.rec(conn, "LIndex", fmt.Sprintf("LIndex(%s,%d)", Q(key), index), nil, []string{key}, tag("LIndex", key, 0))
}
func (h *RecHandler) LLen(conn *redis.Conn, key string) (*redis.Message, error) {
	return h.rec(conn, "LLen", "LLen("+Q(key)+")", nil, []string{key}, resp.Int(7))
}
func (h *RecHandler) SAdd(conn *redis.Conn, key string, members []string) (*redis.Message, error) {
	return h.rec(conn, "SAdd", "SAdd("+Q(key)+","+QS(members)+")", nil, append([]string{key}, members...), resp.Int(int64(len(members))))
}
func (h *RecHandler) SMembers(conn *redis.Conn, key string) (*redis.Message, error) {
	return h.rec(conn, "SMembers", "SMembers("+Q(key)+")", nil, []string{key}, resp.Array(resp.BulkS("r:SMembers:"+key), resp.BulkS("m2")))
}
func (h *RecHandler) SRem(conn *redis.Conn, key string, members []string) (*redis.Message, error) {
	return h.rec(conn, "SRem", "SRem("+Q(key)+","+QS(members)+")", nil, append([]string{key}, members...), resp.Int(int64(len(members))))
}
func (h *RecHandler) ZAdd(conn *redis.Conn, key string, members []*redis.ZSetMember, opt redis.ZAddOption) (*redis.Message, error) {
	keys := []string{key}
	for _, m := range members {
		if m != nil {
			keys = append(keys, m.Member)
		}
	}
	return h.rec(conn, "ZAdd", "ZAdd("+Q(key)+","+ZMembers(members)+","+ZAddOpt(opt)+")", nil, keys, resp.Int(int64(len(members))))
}
func (h *RecHandler) ZRange(conn *redis.Conn, key string, start int, stop int, opt redis.ZRangeOption) (*redis.Message, error) {
	return h.rec(conn, "ZRange", fmt.Sprintf("ZRange(%s,%d,%d,%s)", Q(key), start, stop, ZRangeOpt(opt)), nil, []string{key}, resp.Array(resp.BulkS("r:ZRange:"+key), resp.BulkS("1")))
}
func (h *RecHandler) ZRangeByScore(conn *redis.Conn, key string, min float64, max float64, opt redis.ZRangeOption) (*redis.Message, error) {
	return h.rec(conn, "ZRangeByScore", fmt.Sprintf("ZRangeByScore(%s,%s,%s,%s)", Q(key), F(min), F(max), ZRangeOpt(opt)), nil, []string{key}, resp.Array(resp.BulkS("r:ZRangeByScore:"+key), resp.BulkS("1")))
}
func (h *RecHandler) ZRem(conn *redis.Conn, key string, members []string) (*redis.Message, error) {
	return h.rec(conn, "ZRem", "ZRem("+Q(key)+","+QS(members)+")", nil, append([]string{key}, members...), resp.Int(int64(len(members))))
}
func (h *RecHandler) ZScore(conn *redis.Conn, key string, member string) (*redis.Message, error) {
	return h.rec(conn, "ZScore", "ZScore("+Q(key)+","+Q(member)+")", nil, []string{key, member}, tag("ZScore", key, 0))
}
func (h *RecHandler) ZIncBy(conn *redis.Conn, key string, inc float64, member string) (*redis.Message, error) {
	return h.rec(conn, "ZIncBy", "ZIncBy("+Q(key)+","+F(inc)+","+Q(member)+")", nil, []string{key, member}, tag("ZIncBy", key, 0))
}

var _ redis.UserCommandHandler = (*RecHandler)(nil)

// ---- serving a scripted connection ----

type ServeResult struct {
	Snap     sconn.Snapshot
	Panic    string // non-empty: a panic escaped the connection loop
	Stack    string
	Returned bool
	Err      error
	TimedOut bool
}

// Serve runs the real connection loop over c on a fresh goroutine and waits
// for it to return. wait is a wall-clock watchdog only: when it fires the
// result is marked TimedOut (inconclusive), never a violation by itself.
func Serve(srv *redis.Server, c *sconn.Conn, wait time.Duration) ServeResult {
	return ServeTLS(srv, c, nil, wait)
}

type serveOut struct {
	err   error
	panic string
	stack string
}

// Start begins serving and returns a function that waits for completion.
func Start(srv *redis.Server, c *sconn.Conn, tlsState any) func(wait time.Duration) ServeResult {
	done := make(chan serveOut, 1)
	go func() {
		var o serveOut
		defer func() {
			if e := recover(); e != nil {
				buf := make([]byte, 16384)
				buf = buf[:runtime.Stack(buf, false)]
				o.panic = fmt.Sprint(e)
				o.stack = string(buf)
			}
			c.MarkDone()
			done <- o
		}()
		o.err = serveConn(srv, c, tlsState)
	}()
	return func(wait time.Duration) ServeResult {
		var r ServeResult
		t := time.NewTimer(wait)
		defer t.Stop()
		select {
		case o := <-done:
			r.Returned = o.panic == ""
			r.Err = o.err
			r.Panic = o.panic
			r.Stack = o.stack
		case <-t.C:
			r.TimedOut = true
		}
		r.Snap = c.Snapshot()
		return r
	}
}
