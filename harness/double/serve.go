package double

import (
	"crypto/tls"
	"time"

	"github.com/cybergarage/go-redis/redis"
	"verif/sconn"
)

func serveConn(srv *redis.Server, c *sconn.Conn, tlsState any) error {
	var st *tls.ConnectionState
	if s, ok := tlsState.(*tls.ConnectionState); ok {
		st = s
	}
	return srv.VerifServeConn(c, st)
}

// ServeTLS is Serve with a (possibly fabricated) TLS connection state.
func ServeTLS(srv *redis.Server, c *sconn.Conn, st *tls.ConnectionState, wait time.Duration) ServeResult {
	var a any
	if st != nil {
		a = st
	}
	return Start(srv, c, a)(wait)
}
