package double

import (
	"context"
	"fmt"
	"sync"

	"github.com/cybergarage/go-tracing/tracer"
	"github.com/cybergarage/go-tracing/tracer/common"
	"verif/sconn"
)

// SpanEvent is a start or finish event observed by the tracer double.
type SpanEvent struct {
	Seq    uint64
	Start  bool
	ID     int
	Parent int // 0 = root
	Name   string
}

// SpanRecorder implements tracer.Tracer. Span contexts are the library's own
// common.NewSpanContextWith, i.e. the stack every real tracer uses.
type SpanRecorder struct {
	mu     sync.Mutex
	Events []SpanEvent
	nextID int
}

func NewSpanRecorder() *SpanRecorder { return &SpanRecorder{} }

func (t *SpanRecorder) Snapshot() []SpanEvent {
	t.mu.Lock()
	defer t.mu.Unlock()
	return append([]SpanEvent{}, t.Events...)
}

func (t *SpanRecorder) SetPackageName(string) {}
func (t *SpanRecorder) SetServiceName(string) {}
func (t *SpanRecorder) SetEndpoint(string)    {}
func (t *SpanRecorder) PackageName() string   { return "verif" }
func (t *SpanRecorder) ServiceName() string   { return "verif" }
func (t *SpanRecorder) Endpoint() string      { return "" }
func (t *SpanRecorder) Start() error          { return nil }
func (t *SpanRecorder) Stop() error           { return nil }

func (t *SpanRecorder) newSpan(parent int, name string) *recSpan {
	t.mu.Lock()
	defer t.mu.Unlock()
	t.nextID++
	s := &recSpan{t: t, id: t.nextID, name: name}
	t.Events = append(t.Events, SpanEvent{Seq: sconn.NextSeq(), Start: true, ID: s.id, Parent: parent, Name: name})
	return s
}

func (t *SpanRecorder) StartSpan(name string) tracer.Context {
	return common.NewSpanContextWith(t.newSpan(0, name))
}

type recSpan struct {
	t    *SpanRecorder
	id   int
	name string
}

func (s *recSpan) SetTag(string, any) {}
func (s *recSpan) Finish() {
	s.t.mu.Lock()
	defer s.t.mu.Unlock()
	s.t.Events = append(s.t.Events, SpanEvent{Seq: sconn.NextSeq(), Start: false, ID: s.id, Name: s.name})
}
func (s *recSpan) Context() context.Context { return context.Background() }
func (s *recSpan) StartSpan(name string) tracer.Context {
	return common.NewSpanContextWith(s.t.newSpan(s.id, name))
}

func (e SpanEvent) String() string {
	if e.Start {
		return fmt.Sprintf("start(%d<-%d %s)", e.ID, e.Parent, e.Name)
	}
	return fmt.Sprintf("finish(%d %s)", e.ID, e.Name)
}

var _ tracer.Tracer = (*SpanRecorder)(nil)
