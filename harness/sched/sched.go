// Package sched is the controller for the verif-tagged schedule points (hook
// H2): a goroutine arriving at a gated point reports {point, goroutine} and
// parks until the controller releases it. The controller never sleeps to
// "make" an interleaving; it releases parked goroutines in a chosen order.
package sched

import (
	"runtime"
	"strconv"
	"strings"
	"sync"
	"time"

	"github.com/cybergarage/go-redis/redis"
	"verif/sconn"
)

type parked struct {
	point string
	gid   int
	ch    chan struct{}
}

type Ctl struct {
	mu     sync.Mutex
	cond   *sync.Cond
	gated  map[string]bool
	parked []*parked
	Log    []string // every point passage in order (gated or not)
	counts map[string]int
}

func gid() int {
	var buf [64]byte
	n := runtime.Stack(buf[:], false)
	f := strings.Fields(string(buf[:n]))
	if len(f) >= 2 {
		id, _ := strconv.Atoi(f[1])
		return id
	}
	return 0
}

// Install makes c the process-wide schedule-point hook.
func Install() *Ctl {
	c := &Ctl{gated: map[string]bool{}, counts: map[string]int{}}
	c.cond = sync.NewCond(&c.mu)
	f := func(name string) { c.hit(name) }
	redis.VerifPointHook.Store(&f)
	return c
}

// Uninstall removes the hook and releases everything still parked.
func (c *Ctl) Uninstall() {
	redis.VerifPointHook.Store(nil)
	c.mu.Lock()
	for _, p := range c.parked {
		close(p.ch)
	}
	c.parked = nil
	c.gated = map[string]bool{}
	c.mu.Unlock()
}

func (c *Ctl) hit(name string) {
	sconn.NextSeq() // progress for the child watchdog
	c.mu.Lock()
	c.Log = append(c.Log, name)
	c.counts[name]++
	if !c.gated[name] {
		c.cond.Broadcast()
		c.mu.Unlock()
		return
	}
	p := &parked{point: name, gid: gid(), ch: make(chan struct{})}
	c.parked = append(c.parked, p)
	c.cond.Broadcast()
	c.mu.Unlock()
	<-p.ch
}

// Gate makes the named points park arriving goroutines.
func (c *Ctl) Gate(points ...string) {
	c.mu.Lock()
	defer c.mu.Unlock()
	for _, p := range points {
		c.gated[p] = true
	}
}

// Ungate stops gating the points and releases goroutines parked there.
func (c *Ctl) Ungate(points ...string) {
	c.mu.Lock()
	defer c.mu.Unlock()
	for _, pt := range points {
		delete(c.gated, pt)
		var rest []*parked
		for _, p := range c.parked {
			if p.point == pt {
				close(p.ch)
			} else {
				rest = append(rest, p)
			}
		}
		c.parked = rest
	}
}

func (c *Ctl) waitUntil(pred func() bool, timeout time.Duration) bool {
	deadline := time.Now().Add(timeout)
	stop := make(chan struct{})
	defer close(stop)
	go func() {
		select {
		case <-time.After(timeout):
			c.mu.Lock()
			c.cond.Broadcast()
			c.mu.Unlock()
		case <-stop:
		}
	}()
	c.mu.Lock()
	defer c.mu.Unlock()
	for !pred() {
		if time.Now().After(deadline) {
			return false
		}
		c.cond.Wait()
	}
	return true
}

// WaitParked waits until a goroutine is parked at point (watchdog timeout).
func (c *Ctl) WaitParked(point string, timeout time.Duration) bool {
	return c.waitUntil(func() bool {
		for _, p := range c.parked {
			if p.point == point {
				return true
			}
		}
		return false
	}, timeout)
}

// WaitCount waits until point was passed (or reached) at least n times.
func (c *Ctl) WaitCount(point string, n int, timeout time.Duration) bool {
	return c.waitUntil(func() bool { return c.counts[point] >= n }, timeout)
}

// Release lets one goroutine parked at point continue; false if none is parked.
func (c *Ctl) Release(point string) bool {
	c.mu.Lock()
	defer c.mu.Unlock()
	for i, p := range c.parked {
		if p.point == point {
			c.parked = append(c.parked[:i], c.parked[i+1:]...)
			close(p.ch)
			return true
		}
	}
	return false
}

// Parked lists the points goroutines are currently parked at.
func (c *Ctl) Parked() []string {
	c.mu.Lock()
	defer c.mu.Unlock()
	var out []string
	for _, p := range c.parked {
		out = append(out, p.point)
	}
	return out
}

// Count returns how often a point was reached.
func (c *Ctl) Count(point string) int {
	c.mu.Lock()
	defer c.mu.Unlock()
	return c.counts[point]
}
