// Package refstore exposes a model.State through the framework's handler
// interface: primitive operations that behave like Redis, under one mutex.
// Derived commands (INCR, APPEND, MSETNX, GETRANGE, ...) are deliberately
// absent: the framework composes them from these primitives.
package refstore

import (
	"errors"
	"strconv"
	"sync"
	"time"

	"github.com/cybergarage/go-redis/redis"
	"verif/double"
	"verif/model"
	"verif/resp"
)

type Store struct {
	mu    sync.Mutex
	S     *model.State
	Yield func() // called before every primitive (outside the mutex)
	Calls int64
}

func New() *Store { return &Store{S: model.New()} }

func (s *Store) do(argv ...string) (*redis.Message, error) {
	if s.Yield != nil {
		s.Yield()
	}
	s.mu.Lock()
	v := s.S.Exec(argv)
	s.Calls++
	s.mu.Unlock()
	if v.IsErr() {
		return nil, errors.New(string(v.B))
	}
	if v.K == '*' && v.Null {
		return redis.NewNilMessage(), nil
	}
	return double.ToMessage(v), nil
}

// Dump returns the canonical contents.
func (s *Store) Dump() map[string]string {
	s.mu.Lock()
	defer s.mu.Unlock()
	return s.S.Dump()
}

func ff(f float64) string { return strconv.FormatFloat(f, 'g', -1, 64) }

func (s *Store) Del(c *redis.Conn, keys []string) (*redis.Message, error) {
	return s.do(append([]string{"DEL"}, keys...)...)
}
func (s *Store) Exists(c *redis.Conn, keys []string) (*redis.Message, error) {
	return s.do(append([]string{"EXISTS"}, keys...)...)
}
func (s *Store) Expire(c *redis.Conn, key string, opt redis.ExpireOption) (*redis.Message, error) {
	// logical expiry only (model.Entry.Vol): the programs use times a day away or times long past
	if opt.Time.After(time.Now().Add(time.Hour)) {
		return s.do("EXPIRE", key, "100000")
	}
	return s.do("EXPIRE", key, "0")
}
func (s *Store) Keys(c *redis.Conn, pattern string) (*redis.Message, error) {
	return s.do("KEYS", pattern)
}
func (s *Store) Rename(c *redis.Conn, key string, newkey string, opt redis.RenameOption) (*redis.Message, error) {
	if opt.NX {
		return s.do("RENAMENX", key, newkey)
	}
	return s.do("RENAME", key, newkey)
}
func (s *Store) Type(c *redis.Conn, key string) (*redis.Message, error) { return s.do("TYPE", key) }
func (s *Store) TTL(c *redis.Conn, key string) (*redis.Message, error)  { return s.do("TTL", key) }
func (s *Store) Scan(c *redis.Conn, cursor int, opt redis.ScanOption) (*redis.Message, error) {
	if s.Yield != nil {
		s.Yield()
	}
	s.mu.Lock()
	defer s.mu.Unlock()
	keys := resp.Array()
	for k := range s.S.Keys {
		if opt.MatchPattern == nil || opt.MatchPattern.MatchString(k) {
			keys.A = append(keys.A, resp.BulkS(k))
		}
	}
	return double.ToMessage(resp.Array(resp.BulkS("0"), keys)), nil
}
func (s *Store) Set(c *redis.Conn, key string, val string, opt redis.SetOption) (*redis.Message, error) {
	if opt.NX && !opt.GET {
		return s.do("SETNX", key, val)
	}
	argv := []string{"SET", key, val}
	if opt.NX {
		argv = append(argv, "NX")
	}
	if opt.XX {
		argv = append(argv, "XX")
	}
	if opt.GET {
		argv = append(argv, "GET")
	}
	if opt.EX > 0 || opt.PX > 0 || !opt.EXAT.IsZero() || !opt.PXAT.IsZero() {
		argv = append(argv, "EX", "100000")
	}
	if opt.KEEPTTL {
		argv = append(argv, "KEEPTTL")
	}
	return s.do(argv...)
}
func (s *Store) Get(c *redis.Conn, key string) (*redis.Message, error) { return s.do("GET", key) }
func (s *Store) HDel(c *redis.Conn, key string, fields []string) (*redis.Message, error) {
	return s.do(append([]string{"HDEL", key}, fields...)...)
}
func (s *Store) HSet(c *redis.Conn, key string, field string, val string, opt redis.HSetOption) (*redis.Message, error) {
	if opt.NX {
		return s.do("HSETNX", key, field, val)
	}
	return s.do("HSET", key, field, val)
}
func (s *Store) HGet(c *redis.Conn, key string, field string) (*redis.Message, error) {
	return s.do("HGET", key, field)
}
func (s *Store) HGetAll(c *redis.Conn, key string) (*redis.Message, error) {
	return s.do("HGETALL", key)
}
func (s *Store) LPush(c *redis.Conn, key string, elements []string, opt redis.PushOption) (*redis.Message, error) {
	cmd := "LPUSH"
	if opt.X {
		cmd = "LPUSHX"
	}
	return s.do(append([]string{cmd, key}, elements...)...)
}
func (s *Store) RPush(c *redis.Conn, key string, elements []string, opt redis.PushOption) (*redis.Message, error) {
	cmd := "RPUSH"
	if opt.X {
		cmd = "RPUSHX"
	}
	return s.do(append([]string{cmd, key}, elements...)...)
}
func (s *Store) pop(cmd string, key string, count int) (*redis.Message, error) {
	if count == 1 {
		return s.do(cmd, key)
	}
	return s.do(cmd, key, strconv.Itoa(count))
}
func (s *Store) LPop(c *redis.Conn, key string, count int) (*redis.Message, error) {
	return s.pop("LPOP", key, count)
}
func (s *Store) RPop(c *redis.Conn, key string, count int) (*redis.Message, error) {
	return s.pop("RPOP", key, count)
}
func (s *Store) LRange(c *redis.Conn, key string, start int, stop int) (*redis.Message, error) {
	return s.do("LRANGE", key, strconv.Itoa(start), strconv.Itoa(stop))
}
func (s *Store) LIndex(c *redis.Conn, key string, index int) (*redis.Message, error) {
	return s.do("LINDEX", key, strconv.Itoa(index))
}
func (s *Store) LLen(c *redis.Conn, key string) (*redis.Message, error) { return s.do("LLEN", key) }
func (s *Store) SAdd(c *redis.Conn, key string, members []string) (*redis.Message, error) {
	return s.do(append([]string{"SADD", key}, members...)...)
}
func (s *Store) SMembers(c *redis.Conn, key string) (*redis.Message, error) {
	return s.do("SMEMBERS", key)
}
func (s *Store) SRem(c *redis.Conn, key string, members []string) (*redis.Message, error) {
	return s.do(append([]string{"SREM", key}, members...)...)
}
func (s *Store) ZAdd(c *redis.Conn, key string, members []*redis.ZSetMember, opt redis.ZAddOption) (*redis.Message, error) {
	argv := []string{"ZADD", key}
	for _, f := range []struct {
		on bool
		n  string
	}{{opt.NX, "NX"}, {opt.XX, "XX"}, {opt.GT, "GT"}, {opt.LT, "LT"}, {opt.CH, "CH"}, {opt.INCR, "INCR"}} {
		if f.on {
			argv = append(argv, f.n)
		}
	}
	for _, m := range members {
		argv = append(argv, ff(m.Score), m.Member)
	}
	return s.do(argv...)
}
func zopts(argv []string, opt redis.ZRangeOption, limit bool) []string {
	if opt.WITHSCORES {
		argv = append(argv, "WITHSCORES")
	}
	if limit && (opt.Offset != 0 || opt.Count != -1) {
		argv = append(argv, "LIMIT", strconv.Itoa(opt.Offset), strconv.Itoa(opt.Count))
	}
	return argv
}
func (s *Store) ZRange(c *redis.Conn, key string, start int, stop int, opt redis.ZRangeOption) (*redis.Message, error) {
	argv := []string{"ZRANGE", key, strconv.Itoa(start), strconv.Itoa(stop)}
	if opt.REV {
		argv = append(argv, "REV")
	}
	return s.do(zopts(argv, opt, false)...)
}
func (s *Store) ZRangeByScore(c *redis.Conn, key string, min float64, max float64, opt redis.ZRangeOption) (*redis.Message, error) {
	lo, hi := ff(min), ff(max)
	if opt.MINEXCLUSIVE {
		lo = "(" + lo
	}
	if opt.MAXEXCLUSIVE {
		hi = "(" + hi
	}
	return s.do(zopts([]string{"ZRANGEBYSCORE", key, lo, hi}, opt, true)...)
}
func (s *Store) ZRem(c *redis.Conn, key string, members []string) (*redis.Message, error) {
	return s.do(append([]string{"ZREM", key}, members...)...)
}
func (s *Store) ZScore(c *redis.Conn, key string, member string) (*redis.Message, error) {
	return s.do("ZSCORE", key, member)
}
func (s *Store) ZIncBy(c *redis.Conn, key string, inc float64, member string) (*redis.Message, error) {
	return s.do("ZINCRBY", key, ff(inc), member)
}

var _ redis.UserCommandHandler = (*Store)(nil)
