// Package grammar is an independent description of the command surface,
// written from the Redis command reference and the handler interface comments
// (not from the executor code): for every command a generator of well-formed
// argument vectors together with the handler call(s) a correct dispatcher
// must make, and slot metadata from which ill-formed variants are derived
// systematically.
package grammar

import (
	"fmt"
	"strconv"
	"strings"
	"time"

	"github.com/cybergarage/go-redis/redis"
	"verif/double"
	"verif/globref"
	"verif/resp"
	"verif/rng"
)

type Class int

const (
	Framework Class = iota // answered by the framework itself
	Core                   // maps onto handler operation(s) with a fixed expectation
	Derived                // composed by the framework from primitives; judged against the model (C12)
)

func (c Class) String() string { return [...]string{"framework", "core", "derived"}[c] }

type Kind int

const (
	KNone Kind = iota
	KStr
	KInt
	KPosInt // expiry: integer >= 1
	KFloat
	KBound // score bound: float with optional '(' prefix
)

// Slot describes one argv position.
type Slot struct {
	Role     string // cmd sub pos var pairA pairB tail optkw optarg
	Kind     Kind
	Required bool // cutting the vector right before this slot leaves an ill-formed request
	Name     string
}

type Expected struct {
	Str string
	Rel *int64     // the time argument must lie in [before+Rel s, after+Rel s]
	Abs *time.Time // the time argument must equal Abs
}

type Vector struct {
	Cmd            string // canonical upper-case name
	Class          Class
	Argv           [][]byte
	Slots          []Slot
	Expect         []Expected
	Unordered      bool        // expected calls form a multiset (MSET, HMSET)
	Reply          *resp.Value // framework commands: the exact expected reply when the reference fixes it
	ReplyFromCalls string      // "", "single" (reply == the call's reply), "array" (array of the calls' replies), "ok"
	Token          string
	Tags           []string // option, binary, multi, dupkey
	Quit           bool
}

func (v *Vector) Value() resp.Value { return resp.CmdB(v.Argv...) }

func (v *Vector) has(tag string) bool {
	for _, t := range v.Tags {
		if t == tag {
			return true
		}
	}
	return false
}

func (v *Vector) NonTrivial() bool {
	return len(v.Tags) > 0
}

func (v *Vector) String() string {
	parts := make([]string, len(v.Argv))
	for i, a := range v.Argv {
		parts[i] = fmt.Sprintf("%q", a)
	}
	return strings.Join(parts, " ")
}

type Spec struct {
	Name  string
	Class Class
	Gen   func(b *B)
}

// B builds a vector.
type B struct {
	R   *rng.R
	V   *Vector
	tok string
}

func randCase(r *rng.R, s string) string {
	switch r.Intn(4) {
	case 0:
		return s
	case 1:
		return strings.ToLower(s)
	}
	b := []byte(s)
	for i := range b {
		if r.Bool() {
			b[i] = strings.ToLower(string(b[i]))[0]
		}
	}
	return string(b)
}

func (b *B) tag(t string) {
	if !b.V.has(t) {
		b.V.Tags = append(b.V.Tags, t)
	}
}

func (b *B) push(a []byte, s Slot) {
	b.V.Argv = append(b.V.Argv, a)
	b.V.Slots = append(b.V.Slots, s)
}

func (b *B) cmd(name string) {
	b.V.Cmd = name
	b.push([]byte(randCase(b.R, name)), Slot{Role: "cmd", Name: name})
}

func (b *B) sub(name string) {
	b.push([]byte(randCase(b.R, name)), Slot{Role: "sub", Name: name, Required: true})
}

var hostile = []string{"", "\r\n", "a\r\nb", "\r\n+OK\r\n", "\x00", "\xff\xfe", " ", "a b", "$5", "*1\r\n", "-ERR", ":1", "日本", "\n", "\r"}

// str generates a binary-safe string carrying the request token.
func (b *B) strval(withToken bool) string {
	r := b.R
	var s string
	switch r.Intn(9) {
	case 8:
		s = "" // the empty string is a frequent boundary: '$0' has no payload bytes in front of its CRLF
		b.tag("binary")
	case 0:
		s = rng.Pick(r, hostile)
		b.tag("binary")
	case 1:
		s = string(r.Bytes(1 + r.Intn(24)))
		b.tag("binary")
	case 2:
		s = strconv.FormatInt(rng.Pick(r, []int64{0, 1, -1, 42, 1 << 31, 1<<63 - 1, -1 << 63}), 10)
	default:
		s = string(r.From([]byte("abcxyz019_-"), 1+r.Intn(6)))
	}
	if withToken {
		return b.tok + ":" + s
	}
	return s
}

func (b *B) key(role, name string, req bool) string {
	s := b.strval(true)
	b.push([]byte(s), Slot{Role: role, Kind: KStr, Required: req, Name: name})
	return s
}

func (b *B) val(role, name string, req bool) string {
	s := b.strval(b.R.Chance(1, 3))
	b.push([]byte(s), Slot{Role: role, Kind: KStr, Required: req, Name: name})
	return s
}

var boundaryInts = []int64{0, 1, -1, 2, 10, -10, 1 << 31, 1<<31 - 1, -1 << 31, 1<<63 - 1, -1 << 63, 1 << 40}

func (b *B) integer(role, name string, req bool, choices ...int64) int64 {
	var i int64
	if len(choices) > 0 {
		i = rng.Pick(b.R, choices)
	} else if b.R.Chance(1, 3) {
		i = rng.Pick(b.R, boundaryInts)
	} else {
		i = int64(b.R.Range(-20, 20))
	}
	b.push([]byte(strconv.FormatInt(i, 10)), Slot{Role: role, Kind: KInt, Required: req, Name: name})
	return i
}

func (b *B) posint(role, name string, req bool, max int64) int64 {
	var i int64
	switch b.R.Intn(4) {
	case 0:
		i = 1
	case 1:
		i = max
	default:
		i = 1 + int64(b.R.U64()%uint64(max))
	}
	b.push([]byte(strconv.FormatInt(i, 10)), Slot{Role: role, Kind: KPosInt, Required: req, Name: name})
	return i
}

var floatTokens = []string{"0", "1", "-1", "1.5", "-0", "0.1", "1e308", "-1e308", "5e-324", "inf", "-inf", "+inf", "3", "2.5e10", "1e-7", "123456789.125", "-7.25", "1E3"}

func (b *B) float(role, name string, req bool) float64 {
	tokS := rng.Pick(b.R, floatTokens)
	if b.R.Chance(1, 4) {
		tokS = strconv.FormatFloat(float64(b.R.Range(-1000, 1000))/8, 'g', -1, 64)
	}
	f, _ := strconv.ParseFloat(tokS, 64)
	b.push([]byte(tokS), Slot{Role: role, Kind: KFloat, Required: req, Name: name})
	return f
}

func (b *B) bound(role, name string) (float64, bool) {
	tokS := rng.Pick(b.R, []string{"0", "1", "-1", "1.5", "5", "-inf", "+inf", "inf", "100", "-2.5", "1e3"})
	f, _ := strconv.ParseFloat(tokS, 64)
	ex := b.R.Chance(1, 3)
	if ex {
		tokS = "(" + tokS
	}
	b.push([]byte(tokS), Slot{Role: role, Kind: KBound, Required: true, Name: name})
	return f, ex
}

func (b *B) kw(name string) {
	b.push([]byte(randCase(b.R, name)), Slot{Role: "optkw", Name: name})
	b.tag("option")
}

func (b *B) expect(format string, args ...any) {
	b.V.Expect = append(b.V.Expect, Expected{Str: fmt.Sprintf(format, args...)})
}

func (b *B) reply(v resp.Value) { b.V.Reply = &v }

// list generates 1..k list elements.
func (b *B) list(role, name string) []string {
	n := 1
	switch b.R.Intn(4) {
	case 0:
	case 1:
		n = 2
	default:
		n = 1 + b.R.Intn(5)
	}
	out := make([]string, n)
	for i := range out {
		if i > 0 && b.R.Chance(1, 6) {
			out[i] = out[b.R.Intn(i)] // duplicate element
			b.push([]byte(out[i]), Slot{Role: role, Kind: KStr, Required: i == 0, Name: name})
			b.tag("dupkey")
			continue
		}
		out[i] = b.key(role, name, i == 0)
	}
	if n >= 2 {
		b.tag("multi")
	}
	return out
}

// pairs generates 1..k key/value pairs with occasional duplicate keys.
func (b *B) pairs(nameA, nameB string) (keys []string, vals []string) {
	n := 1 + b.R.Intn(4)
	for i := 0; i < n; i++ {
		var k string
		if i > 0 && b.R.Chance(1, 4) {
			k = keys[b.R.Intn(i)]
			b.push([]byte(k), Slot{Role: "pairA", Kind: KStr, Required: i == 0, Name: nameA})
			b.tag("dupkey")
		} else {
			k = b.key("pairA", nameA, i == 0)
		}
		v := b.val("pairB", nameB, true)
		keys = append(keys, k)
		vals = append(vals, v)
	}
	if n >= 2 {
		b.tag("multi")
	}
	return
}

func lastWins(keys, vals []string) (ks []string, vs []string) {
	idx := map[string]int{}
	for i, k := range keys {
		if j, ok := idx[k]; ok {
			vs[j] = vals[i]
			continue
		}
		idx[k] = len(ks)
		ks = append(ks, k)
		vs = append(vs, vals[i])
	}
	return
}

var q = double.Q
var qs = double.QS

func simpleKey(name, method string) *Spec {
	return &Spec{Name: name, Class: Core, Gen: func(b *B) {
		b.cmd(name)
		k := b.key("pos", "key", true)
		b.expect("%s(%s)", method, q(k))
		b.V.ReplyFromCalls = "single"
	}}
}

func keyList(name, method string) *Spec {
	return &Spec{Name: name, Class: Core, Gen: func(b *B) {
		b.cmd(name)
		ks := b.list("var", "keys")
		b.expect("%s(%s)", method, qs(ks))
		b.V.ReplyFromCalls = "single"
	}}
}

func keyPlusList(name, method, listName string) *Spec {
	return &Spec{Name: name, Class: Core, Gen: func(b *B) {
		b.cmd(name)
		k := b.key("pos", "key", true)
		ms := b.list("var", listName)
		b.expect("%s(%s,%s)", method, q(k), qs(ms))
		b.V.ReplyFromCalls = "single"
	}}
}

func push(name, method string, x bool) *Spec {
	return &Spec{Name: name, Class: Core, Gen: func(b *B) {
		b.cmd(name)
		k := b.key("pos", "key", true)
		es := b.list("var", "elements")
		b.expect("%s(%s,%s,{X:%v})", method, q(k), qs(es), x)
		b.V.ReplyFromCalls = "single"
	}}
}

func pop(name, method string) *Spec {
	return &Spec{Name: name, Class: Core, Gen: func(b *B) {
		b.cmd(name)
		k := b.key("pos", "key", true)
		n := int64(1)
		if b.R.Bool() {
			n = b.integer("tail", "count", false, 1, 2, 3, 5, 100, 1<<31, 0, 0)
			b.tag("option")
		}
		b.expect("%s(%s,%d)", method, q(k), n)
		b.V.ReplyFromCalls = "single"
	}}
}

func rename(name string, nx bool) *Spec {
	return &Spec{Name: name, Class: Core, Gen: func(b *B) {
		b.cmd(name)
		k := b.key("pos", "key", true)
		var nk string
		if b.R.Chance(1, 5) {
			nk = k
			b.push([]byte(nk), Slot{Role: "pos", Kind: KStr, Required: true, Name: "newkey"})
			b.tag("dupkey")
		} else {
			nk = b.key("pos", "newkey", true)
		}
		b.expect("Rename(%s,%s,{NX:%v})", q(k), q(nk), nx)
		b.V.ReplyFromCalls = "single"
	}}
}

func expire(name string, abs bool) *Spec {
	return &Spec{Name: name, Class: Core, Gen: func(b *B) {
		b.cmd(name)
		k := b.key("pos", "key", true)
		var e Expected
		if abs {
			ts := b.integer("pos", "timestamp", true, 0, 1, 1700000000, 1<<31, 1<<40, 4102444800)
			t := time.Unix(ts, 0)
			e.Abs = &t
		} else {
			s := b.integer("pos", "seconds", true, 0, 1, -1, 10, 3600, 86400*365, 1000000000, -1000000000)
			e.Rel = &s
		}
		opt := redis.ExpireOption{}
		if b.R.Bool() {
			f := rng.Pick(b.R, []string{"NX", "XX", "GT", "LT"})
			b.kw(f)
			switch f {
			case "NX":
				opt.NX = true
			case "XX":
				opt.XX = true
			case "GT":
				opt.GT = true
			case "LT":
				opt.LT = true
			}
		}
		e.Str = fmt.Sprintf("Expire(%s,T:*,%s)", q(k), double.ExpireOpt(opt))
		b.V.Expect = append(b.V.Expect, e)
		b.V.ReplyFromCalls = "single"
	}}
}

func setLike(name string, mk func(o *redis.SetOption)) *Spec {
	return &Spec{Name: name, Class: Core, Gen: func(b *B) {
		b.cmd(name)
		k := b.key("pos", "key", true)
		v := b.val("pos", "value", true)
		var o redis.SetOption
		mk(&o)
		b.expect("Set(%s,%s,%s)", q(k), q(v), double.SetOpt(o))
		b.V.ReplyFromCalls = "single"
	}}
}

func hset(name string, nx bool) *Spec {
	return &Spec{Name: name, Class: Core, Gen: func(b *B) {
		b.cmd(name)
		h := b.key("pos", "hash", true)
		f := b.key("pos", "field", true)
		v := b.val("pos", "value", true)
		b.expect("HSet(%s,%s,%s,{NX:%v})", q(h), q(f), q(v), nx)
		b.V.ReplyFromCalls = "single"
	}}
}

func derived(name string, gen func(b *B)) *Spec {
	return &Spec{Name: name, Class: Derived, Gen: func(b *B) { b.cmd(name); gen(b) }}
}

// Specs is the command surface.
var Specs = buildSpecs()

func buildSpecs() []*Spec {
	var s []*Spec
	add := func(x *Spec) { s = append(s, x) }

	// ---- connection / server management: answered by the framework ----
	add(&Spec{Name: "PING", Class: Framework, Gen: func(b *B) {
		b.cmd("PING")
		if b.R.Bool() {
			m := b.strval(true)
			for m == "" {
				m = b.strval(true)
			}
			b.push([]byte(m), Slot{Role: "tail", Kind: KStr, Name: "message"})
			b.reply(resp.BulkS(m))
			b.tag("option")
		} else {
			b.reply(resp.Status("PONG"))
		}
	}})
	add(&Spec{Name: "ECHO", Class: Framework, Gen: func(b *B) {
		b.cmd("ECHO")
		m := b.key("pos", "message", true)
		b.reply(resp.BulkS(m))
	}})
	add(&Spec{Name: "SELECT", Class: Framework, Gen: func(b *B) {
		b.cmd("SELECT")
		b.integer("pos", "index", true, 0, 1, 2, 7, 15)
		b.reply(resp.Status("OK"))
	}})
	add(&Spec{Name: "QUIT", Class: Framework, Gen: func(b *B) {
		b.cmd("QUIT")
		b.reply(resp.Status("OK"))
		b.V.Quit = true
	}})
	add(&Spec{Name: "AUTH", Class: Framework, Gen: func(b *B) {
		b.cmd("AUTH")
		if b.R.Bool() {
			// two-argument form: cutting before the password leaves a well-formed one-argument AUTH
			b.key("pos", "username", true)
			b.key("pos", "password", false)
		} else {
			b.key("pos", "password", true)
		}
	}})
	add(&Spec{Name: "CONFIG", Class: Framework, Gen: func(b *B) {
		b.cmd("CONFIG")
		if b.R.Bool() {
			b.sub("SET")
			n := 1 + b.R.Intn(3)
			for i := 0; i < n; i++ {
				k := "verif-" + b.key("pairA", "parameter", i == 0)
				b.V.Argv[len(b.V.Argv)-1] = []byte(k)
				b.val("pairB", "value", true)
			}
			b.reply(resp.Status("OK"))
		} else {
			b.sub("GET")
			n := 1 + b.R.Intn(3)
			out := resp.Array()
			for i := 0; i < n; i++ {
				k := "verif-" + b.key("var", "parameter", i == 0)
				b.V.Argv[len(b.V.Argv)-1] = []byte(k)
				out.A = append(out.A, resp.BulkS(k), resp.BulkS(""))
			}
			b.reply(out)
		}
	}})

	// ---- generic ----
	add(keyList("DEL", "Del"))
	add(keyList("EXISTS", "Exists"))
	add(expire("EXPIRE", false))
	add(expire("EXPIREAT", true))
	add(&Spec{Name: "KEYS", Class: Core, Gen: func(b *B) {
		b.cmd("KEYS")
		p := b.key("pos", "pattern", true)
		b.expect("Keys(%s)", q(p))
		b.V.ReplyFromCalls = "single"
	}})
	add(simpleKey("TYPE", "Type"))
	add(simpleKey("TTL", "TTL"))
	add(rename("RENAME", false))
	add(rename("RENAMENX", true))
	add(&Spec{Name: "SCAN", Class: Core, Gen: func(b *B) {
		b.cmd("SCAN")
		c := b.integer("pos", "cursor", true, 0, 1, 5, 100, 1<<31)
		pattern := "*"
		count := int64(10)
		opts := []string{"MATCH", "COUNT"}
		rng.Shuffle(b.R, opts)
		for _, o := range opts {
			if !b.R.Bool() {
				continue
			}
			b.kw(o)
			if o == "MATCH" {
				pattern = string(b.R.From([]byte("ab*?."), 1+b.R.Intn(4)))
				b.push([]byte(pattern), Slot{Role: "optarg", Kind: KStr, Required: true, Name: "pattern"})
			} else {
				count = b.integer("optarg", "count", true, 1, 10, 100, 1000)
			}
		}
		probe := make([]byte, len(double.ProbeKeys))
		for i, k := range double.ProbeKeys {
			probe[i] = '0'
			if globref.Match(pattern, k) {
				probe[i] = '1'
			}
		}
		b.expect("Scan(%d,{match:%s count:%d})", c, probe, count)
		b.V.ReplyFromCalls = "single"
	}})

	// ---- strings ----
	add(simpleKey("GET", "Get"))
	add(&Spec{Name: "SET", Class: Core, Gen: func(b *B) {
		b.cmd("SET")
		k := b.key("pos", "key", true)
		v := b.val("pos", "value", true)
		var o redis.SetOption
		var items []func()
		if b.R.Bool() {
			if b.R.Bool() {
				items = append(items, func() { b.kw("NX"); o.NX = true })
			} else {
				items = append(items, func() { b.kw("XX"); o.XX = true })
			}
		}
		if b.R.Chance(1, 3) {
			items = append(items, func() { b.kw("GET"); o.GET = true })
		}
		switch b.R.Intn(7) {
		case 0:
			items = append(items, func() {
				b.kw("EX")
				o.EX = time.Duration(b.posint("optarg", "seconds", true, 1000000000)) * time.Second
			})
		case 1:
			items = append(items, func() {
				b.kw("PX")
				o.PX = time.Duration(b.posint("optarg", "milliseconds", true, 1000000000000)) * time.Millisecond
			})
		case 2:
			items = append(items, func() { b.kw("EXAT"); o.EXAT = time.Unix(b.posint("optarg", "unix-time-seconds", true, 1<<40), 0) })
		case 3:
			items = append(items, func() {
				b.kw("PXAT")
				o.PXAT = time.UnixMilli(b.posint("optarg", "unix-time-milliseconds", true, 1<<50))
			})
		case 4:
			items = append(items, func() { b.kw("KEEPTTL"); o.KEEPTTL = true })
		}
		rng.Shuffle(b.R, items)
		for _, f := range items {
			f()
		}
		b.expect("Set(%s,%s,%s)", q(k), q(v), double.SetOpt(o))
		b.V.ReplyFromCalls = "single"
	}})
	add(&Spec{Name: "SETEX", Class: Core, Gen: func(b *B) {
		b.cmd("SETEX")
		k := b.key("pos", "key", true)
		s := b.posint("pos", "seconds", true, 1000000000)
		v := b.val("pos", "value", true)
		b.expect("Set(%s,%s,%s)", q(k), q(v), double.SetOpt(redis.SetOption{EX: time.Duration(s) * time.Second}))
		b.V.ReplyFromCalls = "single"
	}})
	add(setLike("SETNX", func(o *redis.SetOption) { o.NX = true }))
	add(setLike("GETSET", func(o *redis.SetOption) { o.GET = true }))
	add(&Spec{Name: "MSET", Class: Core, Gen: func(b *B) {
		b.cmd("MSET")
		ks, vs := b.pairs("key", "value")
		ks, vs = lastWins(ks, vs)
		for i := range ks {
			b.expect("Set(%s,%s,{})", q(ks[i]), q(vs[i]))
		}
		b.V.Unordered = true
		b.V.ReplyFromCalls = "ok"
	}})
	add(&Spec{Name: "MGET", Class: Core, Gen: func(b *B) {
		b.cmd("MGET")
		ks := b.list("var", "keys")
		for _, k := range ks {
			b.expect("Get(%s)", q(k))
		}
		b.V.ReplyFromCalls = "array"
	}})

	// ---- hashes ----
	add(keyPlusList("HDEL", "HDel", "fields"))
	add(&Spec{Name: "HGET", Class: Core, Gen: func(b *B) {
		b.cmd("HGET")
		h := b.key("pos", "hash", true)
		f := b.key("pos", "field", true)
		b.expect("HGet(%s,%s)", q(h), q(f))
		b.V.ReplyFromCalls = "single"
	}})
	add(simpleKey("HGETALL", "HGetAll"))
	add(hset("HSET", false))
	add(hset("HSETNX", true))
	add(&Spec{Name: "HMSET", Class: Core, Gen: func(b *B) {
		b.cmd("HMSET")
		h := b.key("pos", "hash", true)
		fs, vs := b.pairs("field", "value")
		fs, vs = lastWins(fs, vs)
		for i := range fs {
			b.expect("HSet(%s,%s,%s,{NX:false})", q(h), q(fs[i]), q(vs[i]))
		}
		b.V.Unordered = true
		b.V.ReplyFromCalls = "ok"
	}})
	add(&Spec{Name: "HMGET", Class: Core, Gen: func(b *B) {
		b.cmd("HMGET")
		h := b.key("pos", "hash", true)
		fs := b.list("var", "fields")
		for _, f := range fs {
			b.expect("HGet(%s,%s)", q(h), q(f))
		}
		b.V.ReplyFromCalls = "array"
	}})

	// ---- lists ----
	add(push("LPUSH", "LPush", false))
	add(push("LPUSHX", "LPush", true))
	add(push("RPUSH", "RPush", false))
	add(push("RPUSHX", "RPush", true))
	add(pop("LPOP", "LPop"))
	add(pop("RPOP", "RPop"))
	add(&Spec{Name: "LRANGE", Class: Core, Gen: func(b *B) {
		b.cmd("LRANGE")
		k := b.key("pos", "key", true)
		a := b.integer("pos", "start", true)
		z := b.integer("pos", "stop", true)
		b.expect("LRange(%s,%d,%d)", q(k), a, z)
		b.V.ReplyFromCalls = "single"
	}})
	add(&Spec{Name: "LINDEX", Class: Core, Gen: func(b *B) {
		b.cmd("LINDEX")
		k := b.key("pos", "key", true)
		i := b.integer("pos", "index", true)
		b.expect("LIndex(%s,%d)", q(k), i)
		b.V.ReplyFromCalls = "single"
	}})
	add(simpleKey("LLEN", "LLen"))

	// ---- sets ----
	add(keyPlusList("SADD", "SAdd", "members"))
	add(keyPlusList("SREM", "SRem", "members"))
	add(simpleKey("SMEMBERS", "SMembers"))

	// ---- sorted sets ----
	add(&Spec{Name: "ZADD", Class: Core, Gen: func(b *B) {
		b.cmd("ZADD")
		k := b.key("pos", "key", true)
		var o redis.ZAddOption
		gtlt := b.R.Intn(4)
		incr := b.R.Chance(1, 5)
		var fl []string
		switch b.R.Intn(4) {
		case 0:
			fl = append(fl, "NX")
		case 1:
			fl = append(fl, "XX")
		}
		if len(fl) == 0 || fl[0] == "XX" { // GT/LT are not combined with NX
			switch gtlt {
			case 0:
				fl = append(fl, "GT")
			case 1:
				fl = append(fl, "LT")
			}
		}
		if b.R.Chance(1, 3) {
			fl = append(fl, "CH")
		}
		if incr {
			fl = append(fl, "INCR")
		}
		rng.Shuffle(b.R, fl)
		for _, f := range fl {
			b.kw(f)
			switch f {
			case "NX":
				o.NX = true
			case "XX":
				o.XX = true
			case "GT":
				o.GT = true
			case "LT":
				o.LT = true
			case "CH":
				o.CH = true
			case "INCR":
				o.INCR = true
			}
		}
		n := 1 + b.R.Intn(4)
		if incr {
			n = 1
		}
		var ms []*redis.ZSetMember
		for i := 0; i < n; i++ {
			sc := b.float("pairA", "score", i == 0)
			m := b.key("pairB", "member", true)
			ms = append(ms, &redis.ZSetMember{Score: sc, Member: m})
		}
		if n >= 2 {
			b.tag("multi")
		}
		b.expect("ZAdd(%s,%s,%s)", q(k), double.ZMembers(ms), double.ZAddOpt(o))
		b.V.ReplyFromCalls = "single"
	}})
	add(&Spec{Name: "ZINCRBY", Class: Core, Gen: func(b *B) {
		b.cmd("ZINCRBY")
		k := b.key("pos", "key", true)
		inc := b.float("pos", "increment", true)
		m := b.key("pos", "member", true)
		b.expect("ZIncBy(%s,%s,%s)", q(k), double.F(inc), q(m))
		b.V.ReplyFromCalls = "single"
	}})
	add(&Spec{Name: "ZSCORE", Class: Core, Gen: func(b *B) {
		b.cmd("ZSCORE")
		k := b.key("pos", "key", true)
		m := b.key("pos", "member", true)
		b.expect("ZScore(%s,%s)", q(k), q(m))
		b.V.ReplyFromCalls = "single"
	}})
	add(keyPlusList("ZREM", "ZRem", "members"))
	add(&Spec{Name: "ZRANGE", Class: Core, Gen: func(b *B) {
		b.cmd("ZRANGE")
		k := b.key("pos", "key", true)
		opt := redis.ZRangeOption{Offset: 0, Count: -1}
		if b.R.Chance(2, 5) {
			// BYSCORE form
			min, minEx := b.bound("pos", "min")
			max, maxEx := b.bound("pos", "max")
			opt.BYSCORE, opt.MINEXCLUSIVE, opt.MAXEXCLUSIVE = true, minEx, maxEx
			items := []func(){func() { b.kw("BYSCORE") }}
			if b.R.Bool() {
				items = append(items, func() { b.kw("WITHSCORES"); opt.WITHSCORES = true })
			}
			if b.R.Bool() {
				items = append(items, func() {
					b.kw("LIMIT")
					opt.Offset = int(b.integer("optarg", "offset", true, 0, 1, 2, 10))
					opt.Count = int(b.integer("optarg", "count", true, 0, 1, 2, 10, -1))
				})
			}
			rng.Shuffle(b.R, items)
			for _, f := range items {
				f()
			}
			b.expect("ZRangeByScore(%s,%s,%s,%s)", q(k), double.F(min), double.F(max), double.ZRangeOpt(opt))
		} else {
			a := b.integer("pos", "start", true)
			z := b.integer("pos", "stop", true)
			var items []func()
			if b.R.Bool() {
				items = append(items, func() { b.kw("WITHSCORES"); opt.WITHSCORES = true })
			}
			if b.R.Chance(1, 3) {
				items = append(items, func() { b.kw("REV"); opt.REV = true })
			}
			rng.Shuffle(b.R, items)
			for _, f := range items {
				f()
			}
			b.expect("ZRange(%s,%d,%d,%s)", q(k), a, z, double.ZRangeOpt(opt))
		}
		b.V.ReplyFromCalls = "single"
	}})
	add(&Spec{Name: "ZRANGEBYSCORE", Class: Core, Gen: func(b *B) {
		b.cmd("ZRANGEBYSCORE")
		k := b.key("pos", "key", true)
		min, minEx := b.bound("pos", "min")
		max, maxEx := b.bound("pos", "max")
		opt := redis.ZRangeOption{Offset: 0, Count: -1, MINEXCLUSIVE: minEx, MAXEXCLUSIVE: maxEx}
		var items []func()
		if b.R.Bool() {
			items = append(items, func() { b.kw("WITHSCORES"); opt.WITHSCORES = true })
		}
		if b.R.Bool() {
			items = append(items, func() {
				b.kw("LIMIT")
				opt.Offset = int(b.integer("optarg", "offset", true, 0, 1, 2, 10))
				opt.Count = int(b.integer("optarg", "count", true, 0, 1, 2, 10, -1))
			})
		}
		rng.Shuffle(b.R, items)
		for _, f := range items {
			f()
		}
		b.expect("ZRangeByScore(%s,%s,%s,%s)", q(k), double.F(min), double.F(max), double.ZRangeOpt(opt))
		b.V.ReplyFromCalls = "single"
	}})

	// ---- derived by the framework from primitives (judged in C12) ----
	add(derived("MSETNX", func(b *B) { b.pairs("key", "value") }))
	add(derived("APPEND", func(b *B) { b.key("pos", "key", true); b.val("pos", "value", true) }))
	add(derived("INCR", func(b *B) { b.key("pos", "key", true) }))
	add(derived("DECR", func(b *B) { b.key("pos", "key", true) }))
	add(derived("INCRBY", func(b *B) { b.key("pos", "key", true); b.integer("pos", "increment", true) }))
	add(derived("DECRBY", func(b *B) { b.key("pos", "key", true); b.integer("pos", "decrement", true) }))
	add(derived("STRLEN", func(b *B) { b.key("pos", "key", true) }))
	add(derived("GETRANGE", func(b *B) {
		b.key("pos", "key", true)
		b.integer("pos", "start", true)
		b.integer("pos", "end", true)
	}))
	add(derived("SUBSTR", func(b *B) {
		b.key("pos", "key", true)
		b.integer("pos", "start", true)
		b.integer("pos", "end", true)
	}))
	add(derived("HEXISTS", func(b *B) { b.key("pos", "hash", true); b.key("pos", "field", true) }))
	add(derived("HKEYS", func(b *B) { b.key("pos", "hash", true) }))
	add(derived("HVALS", func(b *B) { b.key("pos", "hash", true) }))
	add(derived("HLEN", func(b *B) { b.key("pos", "hash", true) }))
	add(derived("HSTRLEN", func(b *B) { b.key("pos", "hash", true); b.key("pos", "field", true) }))
	add(derived("SCARD", func(b *B) { b.key("pos", "key", true) }))
	add(derived("SISMEMBER", func(b *B) { b.key("pos", "key", true); b.key("pos", "member", true) }))
	add(derived("ZCARD", func(b *B) { b.key("pos", "key", true) }))
	add(derived("ZREVRANGE", func(b *B) {
		b.key("pos", "key", true)
		b.integer("pos", "start", true)
		b.integer("pos", "stop", true)
		if b.R.Bool() {
			b.kw("WITHSCORES")
		}
	}))
	add(derived("ZREVRANGEBYSCORE", func(b *B) {
		b.key("pos", "key", true)
		b.bound("pos", "max")
		b.bound("pos", "min")
		if b.R.Bool() {
			b.kw("WITHSCORES")
		}
	}))
	return s
}

// ByName indexes Specs (CONFIG appears once).
var ByName = func() map[string]*Spec {
	m := map[string]*Spec{}
	for _, s := range Specs {
		m[s.Name] = s
	}
	return m
}()

// Generate produces a well-formed vector for spec from the generator.
func Generate(s *Spec, r *rng.R, token string) *Vector {
	v := &Vector{Class: s.Class, Token: token}
	b := &B{R: r, V: v, tok: token}
	s.Gen(b)
	return v
}
