package grammar

import (
	"strconv"
	"strings"

	"verif/resp"
	"verif/rng"
)

// Variant is an ill-formed request derived from a well-formed vector.
type Variant struct {
	Class string
	Req   resp.Value
	From  *Vector
	What  string
}

func argvValue(argv [][]byte, nullAt int) resp.Value {
	v := resp.Value{K: '*', A: []resp.Value{}}
	for i, a := range argv {
		if i == nullAt {
			v.A = append(v.A, resp.NullBulk())
		} else {
			v.A = append(v.A, resp.Bulk(a))
		}
	}
	return v
}

func replaced(argv [][]byte, i int, tok string) [][]byte {
	out := append([][]byte{}, argv...)
	out[i] = []byte(tok)
	return out
}

var nonNumericInt = []struct{ class, tok string }{
	{"non-numeric", "abc"}, {"non-numeric", ""}, {"non-numeric", "12x"}, {"fractional-for-integer", "1.5"},
	{"non-numeric", "-"}, {"non-numeric", "+"}, {"non-numeric", "--1"},
	{"overflowing", "99999999999999999999"}, {"overflowing", "-99999999999999999999"}, {"overflowing", "9223372036854775808"},
}
var nonNumericFloat = []struct{ class, tok string }{{"non-numeric", "abc"}, {"non-numeric", ""}, {"non-numeric", "1.5.2"}, {"non-numeric", "1,5"},
	// the exclusive-bound syntax of score RANGES is not a number where a score is required; nor are padded numbers
	{"non-numeric", "(5"}, {"non-numeric", "(-inf"}, {"non-numeric", "(1.5"}, {"non-numeric", "5("}, {"non-numeric", " 5"}, {"non-numeric", "5 "}}
var nonNumericBound = []struct{ class, tok string }{{"non-numeric", "abc"}, {"non-numeric", "(abc"}, {"non-numeric", ""}, {"non-numeric", "(("}, {"non-numeric", "("}}

// IllFormed derives, systematically, the ill-formed variants of v that C10
// quantifies over. thorough adds the "nan" class.
// r (may be nil) adds seeded random overflowing digit strings at every integer position.
func IllFormed(v *Vector, thorough bool, rs ...*rng.R) []Variant {
	var r *rng.R
	if len(rs) > 0 {
		r = rs[0]
	}
	var out []Variant
	add := func(class, what string, req resp.Value) {
		out = append(out, Variant{Class: class, Req: req, From: v, What: what})
	}
	for i, s := range v.Slots {
		if i == 0 {
			continue
		}
		// (1) each required position omitted: cut the vector right before it
		if s.Required {
			class := "omitted-required"
			if s.Role == "pairB" {
				class = "dangling-pair"
			}
			add(class, "cut before "+s.Role+":"+s.Name, argvValue(v.Argv[:i], -1))
		}
		// (2) a null where a value is required
		switch s.Role {
		case "pos", "var", "pairA", "pairB", "optarg":
			add("null-for-value", "null at "+s.Role+":"+s.Name, argvValue(v.Argv, i))
		}
		// (3) numeric positions
		switch s.Kind {
		case KInt, KPosInt:
			for _, t := range nonNumericInt {
				add(t.class, s.Name+"="+strconv.Quote(t.tok), argvValue(replaced(v.Argv, i, t.tok), -1))
			}
			if r != nil {
				// random decimal strings far beyond 64 bits (a hand-rolled integer parser may wrap around on some)
				for k := 0; k < 6; k++ {
					tok := string(r.From([]byte("123456789"), 1)) + string(r.From([]byte("0123456789"), 19+r.Intn(6)))
					if r.Chance(1, 4) {
						tok = "-" + tok
					}
					add("overflowing", s.Name+"=<random "+strconv.Itoa(len(tok))+"-digit number>", argvValue(replaced(v.Argv, i, tok), -1))
				}
			}
			// a relative expiry that fits into an integer but not into a duration (its conversion to
			// nanoseconds wraps around): out of range where a number is required (Redis: invalid expire time)
			switch s.Name {
			case "seconds":
				for _, tok := range []string{"9223372037", "9223372036854775807", "18446744074"} {
					add("expiry-overflows-duration", s.Name+"="+tok, argvValue(replaced(v.Argv, i, tok), -1))
				}
			case "timestamp", "unix-time-seconds":
				// an absolute time in seconds that cannot be represented (Redis converts it to milliseconds)
				for _, tok := range []string{"9223372036854775807", "9223371974719179008", "9223372036854776"} {
					add("expiry-overflows-time", s.Name+"="+tok, argvValue(replaced(v.Argv, i, tok), -1))
				}
			case "milliseconds":
				for _, tok := range []string{"9223372036855", "9223372036854775807", "18446744073710"} {
					add("expiry-overflows-duration", s.Name+"="+tok, argvValue(replaced(v.Argv, i, tok), -1))
				}
			}
			if s.Kind == KPosInt {
				// an expiry must be positive: 0 and negative values are out of range
				for _, tok := range []string{"0", "-1", "-9223372036854775808"} {
					add("non-positive-expiry", s.Name+"="+tok, argvValue(replaced(v.Argv, i, tok), -1))
				}
			}
		case KFloat:
			for _, t := range nonNumericFloat {
				add(t.class, s.Name+"="+strconv.Quote(t.tok), argvValue(replaced(v.Argv, i, t.tok), -1))
			}
			if thorough {
				add("nan-for-float", s.Name+"=nan", argvValue(replaced(v.Argv, i, "nan"), -1))
			}
		case KBound:
			for _, t := range nonNumericBound {
				add(t.class, s.Name+"="+strconv.Quote(t.tok), argvValue(replaced(v.Argv, i, t.tok), -1))
			}
		}
	}
	return out
}

// SetExclusive enumerates the ill-formed SET option combinations of the
// statement: NX/XX combined or repeated; EX/PX/EXAT/PXAT combined or
// repeated; non-positive expiry.
func SetExclusive(token string) []Variant {
	var out []Variant
	base := []string{"SET", token + ":k", "v"}
	mk := func(class, what string, extra ...string) {
		out = append(out, Variant{Class: class, What: what, Req: resp.Cmd(append(append([]string{}, base...), extra...)...)})
	}
	for _, a := range []string{"NX", "XX", "nx", "Xx"} {
		for _, b := range []string{"NX", "XX", "xx"} {
			cls := "SET-exclusive-combined"
			if (a == "NX" || a == "nx") == (b == "NX") {
				cls = "SET-exclusive-repeated"
			}
			mk(cls, a+" "+b, a, b)
			mk(cls, a+" GET "+b, a, "GET", b)
		}
	}
	exp := []string{"EX", "PX", "EXAT", "PXAT"}
	for _, a := range exp {
		for _, b := range exp {
			cls := "SET-exclusive-combined"
			if a == b {
				cls = "SET-exclusive-repeated"
			}
			mk(cls, a+" 10 "+b+" 20", a, "10", b, "20")
			mk(cls, a+" 10 NX "+b+" 20", a, "10", "NX", b, "20")
		}
		for _, n := range []string{"0", "-1", "-9223372036854775808"} {
			mk("non-positive-expiry", a+" "+n, a, n)
			mk("non-positive-expiry", "XX "+a+" "+n, "XX", a, n)
		}
		mk("omitted-required", a+" without value", a)
	}
	return out
}

// Surplus appends unexpected trailing arguments (outcome unclassified: used by
// C03/C07/C20, where only framing, liveness and span balance are judged).
func Surplus(r *rng.R, v *Vector) resp.Value {
	argv := append([][]byte{}, v.Argv...)
	for i := 0; i < 1+r.Intn(3); i++ {
		argv = append(argv, []byte(rng.Pick(r, []string{"extra", "NX", "LIMIT", "0", "-1", "WITHSCORES", "", "\r\n", "MATCH", "COUNT", "GET", "EX"})))
	}
	return resp.CmdB(argv...)
}

// Unknown returns a request for a command that is not part of the surface.
func Unknown(r *rng.R, token string) resp.Value {
	if r.Chance(1, 6) {
		// an unknown SUBcommand of a command the framework answers itself - among them words that mean something
		// elsewhere (the name of another command): an error reply, no handler call, and nothing else happens
		return resp.Cmd("CONFIG", rng.Pick(r, []string{"QUIT", "quit", "Quit", "AUTH", "SELECT", "FOO", "RESETSTAT", ""}))
	}
	name := rng.Pick(r, []string{"FOO", "GETX", "SE", "XSET", "FLUSHALL", "SUBSCRIBE", "", "\r\n+OK\r\n", "GET\x00", "get "}) + token
	args := []string{name}
	for i := 0; i < r.Intn(3); i++ {
		args = append(args, "a"+strconv.Itoa(i))
	}
	return resp.Cmd(args...)
}

// Lookalike returns v's request with the command name written with letters that are NOT the ASCII letters of the
// name but that Unicode case mapping folds onto them (U+017F long s -> S, U+0131 dotless i -> I). Redis compares
// command names bytewise, ignoring the case of ASCII letters only: such a name is an unknown command.
// ok=false if the name has no such letter.
func Lookalike(r *rng.R, v *Vector) (resp.Value, bool) {
	name := string(v.Argv[0])
	var pos []int
	for i, c := range strings.ToUpper(name) {
		if c == 'S' || c == 'I' {
			pos = append(pos, i)
		}
	}
	if len(pos) == 0 {
		return resp.Value{}, false
	}
	// disguise a non-empty subset of the positions
	chosen := map[int]bool{pos[r.Intn(len(pos))]: true}
	for _, p := range pos {
		if r.Bool() {
			chosen[p] = true
		}
	}
	var b []byte
	for i := 0; i < len(name); i++ {
		c := name[i]
		if chosen[i] {
			if c == 's' || c == 'S' {
				b = append(b, "\u017f"...)
			} else {
				b = append(b, "\u0131"...)
			}
			continue
		}
		b = append(b, c)
	}
	argv := append([][]byte{b}, v.Argv[1:]...)
	return resp.CmdB(argv...), true
}
