package model

import (
	"strings"
	"testing"
)

// Expected replies are taken from the examples of the Redis command reference.
func TestReferenceExamples(t *testing.T) {
	steps := []struct{ cmd, want string }{
		{"SET mykey Hello", `+"OK"`}, {"GET mykey", `$"Hello"`}, {"GET nonexisting", "$nil"},
		{"APPEND mykey |World", `:"11"`}, {"STRLEN mykey", `:"11"`}, {"STRLEN nonexisting", `:"0"`},
		{"SET s This|is|a|string", `+"OK"`}, {"GETRANGE s 0 3", `$"This"`}, {"GETRANGE s -3 -1", `$"ing"`}, {"GETRANGE s 0 -1", `$"This is a string"`}, {"GETRANGE s 10 100", `$"string"`},
		{"GETRANGE s 5 2", `$""`}, {"GETRANGE nonexisting 0 -1", `$""`},
		{"SET c 10", `+"OK"`}, {"INCR c", `:"11"`}, {"INCRBY c 5", `:"16"`}, {"DECR c", `:"15"`}, {"DECRBY c 3", `:"12"`},
		{"SET big 9223372036854775807", `+"OK"`}, {"INCR big", "ERR"}, {"GET big", `$"9223372036854775807"`},
		{"SET notnum 234293482390480948029348230948", `+"OK"`}, {"DECR notnum", "ERR"}, {"SET lz 010", `+"OK"`}, {"INCR lz", "ERR"},
		{"SETNX n1 a", `:"1"`}, {"SETNX n1 b", `:"0"`}, {"GET n1", `$"a"`},
		{"MSETNX k1 Hello k2 there", `:"1"`}, {"MSETNX k2 new k3 world", `:"0"`}, {"MGET k1 k2 k3", `[$"Hello" $"there" $nil]`},
		{"GETSET c 0", `$"12"`}, {"GET c", `$"0"`},
		{"HSET h f1 foo", `:"1"`}, {"HSET h f1 bar", `:"0"`}, {"HGET h f1", `$"bar"`}, {"HGET h f2", "$nil"}, {"HSETNX h f1 x", `:"0"`}, {"HEXISTS h f1", `:"1"`}, {"HEXISTS h nof", `:"0"`},
		{"HSTRLEN h f1", `:"3"`}, {"HLEN h", `:"1"`}, {"HMGET h f1 nof", `[$"bar" $nil]`}, {"HDEL h f1 nof", `:"1"`}, {"EXISTS h", `:"0"`},
		{"RPUSH l one two three", `:"3"`}, {"LRANGE l 0 0", `[$"one"]`}, {"LRANGE l -3 2", `[$"one" $"two" $"three"]`}, {"LRANGE l -100 100", `[$"one" $"two" $"three"]`}, {"LRANGE l 5 10", `[]`},
		{"LPUSH l zero", `:"4"`}, {"LINDEX l 0", `$"zero"`}, {"LINDEX l -1", `$"three"`}, {"LINDEX l 9", "$nil"}, {"LPOP l", `$"zero"`}, {"RPOP l 2", `[$"three" $"two"]`}, {"LLEN l", `:"1"`},
		{"LPOP l", `$"one"`}, {"EXISTS l", `:"0"`}, {"LPOP l", "$nil"}, {"LPUSHX l x", `:"0"`}, {"TYPE l", `+"none"`},
		{"SADD t a b a", `:"2"`}, {"SCARD t", `:"2"`}, {"SISMEMBER t a", `:"1"`}, {"SISMEMBER t z", `:"0"`}, {"SREM t a z", `:"1"`}, {"SMEMBERS t", `[$"b"]`},
		{"ZADD z 1 one", `:"1"`}, {"ZADD z 1 uno", `:"1"`}, {"ZADD z 2 two 3 three", `:"2"`}, {"ZRANGE z 0 -1 WITHSCORES", `[$"one" $"1" $"uno" $"1" $"two" $"2" $"three" $"3"]`},
		{"ZADD z 5 one", `:"0"`}, {"ZSCORE z one", `$"5"`}, {"ZADD z CH 6 one 9 nine", `:"2"`}, {"ZADD z NX 7 one", `:"0"`}, {"ZSCORE z one", `$"6"`}, {"ZADD z XX GT 1 one", `:"0"`}, {"ZSCORE z one", `$"6"`},
		{"ZADD z INCR 2 one", `$"8"`}, {"ZINCRBY z 2 one", `$"10"`}, {"ZCARD z", `:"5"`},
		{"ZREVRANGE z 0 0", `[$"one"]`}, {"ZREVRANGE z 0 1 WITHSCORES", `[$"one" $"10" $"nine" $"9"]`}, {"ZREVRANGE z -2 -1", `[$"two" $"uno"]`},
		{"ZRANGEBYSCORE z (1 3", `[$"two" $"three"]`}, {"ZRANGEBYSCORE z -inf +inf LIMIT 1 2", `[$"two" $"three"]`}, {"ZREVRANGEBYSCORE z +inf -inf LIMIT 0 1", `[$"one"]`}, {"ZREVRANGEBYSCORE z 3 (1", `[$"three" $"two"]`},
		{"ZRANGE z 0 -1 REV", `[$"one" $"nine" $"three" $"two" $"uno"]`}, {"ZRANGE z (1 +inf BYSCORE LIMIT 1 1", `[$"three"]`},
		{"ZREM z one nope", `:"1"`}, {"RENAME z z2", `+"OK"`}, {"EXISTS z z2", `:"1"`}, {"RENAME nosuch x", "ERR"}, {"RENAMENX z2 t", `:"0"`}, {"RENAME z2 z2", `+"OK"`}, {"EXISTS z2", `:"1"`},
		{"DEL z2 t nosuch", `:"2"`}, {"TYPE mykey", `+"string"`}, {"SET pk x NX", `+"OK"`}, {"SET pk y NX", "$nil"}, {"SET pk z XX GET", `$"x"`}, {"SET nk z XX", "$nil"},
		{"PING", `+"PONG"`}, {"PING hi", `$"hi"`}, {"CONFIG SET a 1 b 2", `+"OK"`}, {"CONFIG GET b zz a", `[$"b" $"2" $"zz" $"" $"a" $"1"]`}, {"DEL", "ERR"}, {"MSET a", "ERR"},
	}
	s := New()
	for _, st := range steps {
		argv := strings.Split(st.cmd, " ")
		for i := range argv {
			argv[i] = strings.ReplaceAll(argv[i], "|", " ")
		}
		got := s.Exec(argv)
		if st.want == "ERR" {
			if !got.IsErr() {
				t.Errorf("%s: got %s, want an error", st.cmd, got)
			}
			continue
		}
		if got.String() != st.want {
			t.Errorf("%s: got %s, want %s", st.cmd, got, st.want)
		}
	}
}
