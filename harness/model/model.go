// Package model is a small sequential interpreter of the Redis command
// surface, written from the Redis command reference: Exec(argv) -> reply.
// It has no expiry. Derived commands (INCR, APPEND, GETRANGE, MSETNX, ...)
// are implemented directly here, never by composing primitives, so comparing
// the framework's composition (over refstore or the example store) with this
// model exercises exactly the code under test.
package model

import (
	"math"
	"sort"
	"strconv"
	"strings"

	"verif/globref"
	"verif/resp"
)

type Kind int

const (
	KNone Kind = iota
	KString
	KHash
	KList
	KSet
	KZSet
)

func (k Kind) String() string { return [...]string{"none", "string", "hash", "list", "set", "zset"}[k] }

type Entry struct {
	Kind Kind
	Str  string
	Hash map[string]string
	List []string
	Set  map[string]bool
	ZSet map[string]float64
	// Vol: the key has a time to live (logical flag only: the programs use expiries so far away that no key
	// ever expires while a program runs, so no clock is involved)
	Vol bool
}

// State is one database.
type State struct {
	Keys   map[string]*Entry
	Config map[string]string
}

func New() *State { return &State{Keys: map[string]*Entry{}, Config: map[string]string{}} }

func errv(s string) resp.Value { return resp.Error("ERR " + s) }
func wrongType() resp.Value {
	return resp.Error("WRONGTYPE Operation against a key holding the wrong kind of value")
}
func okv() resp.Value          { return resp.Status("OK") }
func intv(i int) resp.Value    { return resp.Int(int64(i)) }
func bulk(s string) resp.Value { return resp.BulkS(s) }
func nilv() resp.Value         { return resp.NullBulk() }
func arity(c string) resp.Value {
	return errv("wrong number of arguments for '" + strings.ToLower(c) + "' command")
}
func notInt() resp.Value   { return errv("value is not an integer or out of range") }
func notFloat() resp.Value { return errv("value is not a valid float") }
func syntax() resp.Value   { return errv("syntax error") }
func strs(ss []string) resp.Value {
	v := resp.Array()
	for _, s := range ss {
		v.A = append(v.A, bulk(s))
	}
	return v
}

// FormatScore renders a score the way the monitors normalise it.
func FormatScore(f float64) string { return strconv.FormatFloat(f, 'g', -1, 64) }

func (s *State) get(key string, k Kind) (*Entry, bool, bool) { // entry, exists, typeOK
	e, ok := s.Keys[key]
	if !ok {
		return nil, false, true
	}
	return e, true, e.Kind == k
}

func (s *State) ensure(key string, k Kind) (*Entry, bool) {
	e, ok := s.Keys[key]
	if ok {
		return e, e.Kind == k
	}
	e = &Entry{Kind: k}
	switch k {
	case KHash:
		e.Hash = map[string]string{}
	case KSet:
		e.Set = map[string]bool{}
	case KZSet:
		e.ZSet = map[string]float64{}
	}
	s.Keys[key] = e
	return e, true
}

// dropIfEmpty removes containers that became empty (Redis never keeps them).
func (s *State) dropIfEmpty(key string) {
	e, ok := s.Keys[key]
	if !ok {
		return
	}
	switch e.Kind {
	case KHash:
		if len(e.Hash) == 0 {
			delete(s.Keys, key)
		}
	case KList:
		if len(e.List) == 0 {
			delete(s.Keys, key)
		}
	case KSet:
		if len(e.Set) == 0 {
			delete(s.Keys, key)
		}
	case KZSet:
		if len(e.ZSet) == 0 {
			delete(s.Keys, key)
		}
	}
}

// ParseInt follows Redis string2ll: optional '-', no '+', no leading zeros, no spaces.
func ParseInt(t string) (int64, bool) {
	if t == "" {
		return 0, false
	}
	u := t
	if u[0] == '-' {
		u = u[1:]
	}
	if u == "" {
		return 0, false
	}
	if u[0] == '0' && len(u) > 1 {
		return 0, false
	}
	if t == "-0" {
		return 0, false
	}
	for _, c := range u {
		if c < '0' || c > '9' {
			return 0, false
		}
	}
	n, err := strconv.ParseInt(t, 10, 64)
	return n, err == nil
}

func parseFloat(t string) (float64, bool) {
	if t == "" || strings.ContainsAny(t, " \t\r\n") {
		return 0, false
	}
	f, err := strconv.ParseFloat(t, 64)
	if err != nil || math.IsNaN(f) {
		return 0, false
	}
	return f, true
}

type bound struct {
	v    float64
	excl bool
}

func parseBound(t string) (bound, bool) {
	b := bound{}
	if strings.HasPrefix(t, "(") {
		b.excl = true
		t = t[1:]
	}
	f, ok := parseFloat(t)
	b.v = f
	return b, ok
}

type zm struct {
	m string
	s float64
}

func sortedZ(e *Entry) []zm {
	out := make([]zm, 0, len(e.ZSet))
	for m, s := range e.ZSet {
		out = append(out, zm{m, s})
	}
	sort.Slice(out, func(i, j int) bool {
		if out[i].s != out[j].s {
			return out[i].s < out[j].s
		}
		return out[i].m < out[j].m
	})
	return out
}

func zreply(ms []zm, withScores bool) resp.Value {
	v := resp.Array()
	for _, m := range ms {
		v.A = append(v.A, bulk(m.m))
		if withScores {
			v.A = append(v.A, bulk(FormatScore(m.s)))
		}
	}
	return v
}

// clampRange implements Redis start/stop index semantics over n elements;
// ok=false means the empty range.
func clampRange(start, stop int64, n int) (int, int, bool) {
	l := int64(n)
	if start < 0 {
		start += l
	}
	if stop < 0 {
		stop += l
	}
	if start < 0 {
		start = 0
	}
	if start > stop || start >= l {
		return 0, 0, false
	}
	if stop >= l {
		stop = l - 1
	}
	return int(start), int(stop), true
}

func reverseZ(ms []zm) []zm {
	out := make([]zm, len(ms))
	for i, m := range ms {
		out[len(ms)-1-i] = m
	}
	return out
}

func limit(ms []zm, off, cnt int64) []zm {
	if off < 0 {
		return nil
	}
	if off >= int64(len(ms)) {
		return nil
	}
	ms = ms[off:]
	if cnt >= 0 && cnt < int64(len(ms)) {
		ms = ms[:cnt]
	}
	return ms
}

// Exec executes one command (argv[0] = name, case-insensitive).
func (s *State) Exec(argv []string) resp.Value {
	if len(argv) == 0 {
		return errv("empty command")
	}
	cmd := strings.ToUpper(argv[0])
	a := argv[1:]
	n := len(a)
	switch cmd {
	case "PING":
		if n == 0 {
			return resp.Status("PONG")
		}
		if n == 1 {
			return bulk(a[0])
		}
		return arity(cmd)
	case "ECHO":
		if n != 1 {
			return arity(cmd)
		}
		return bulk(a[0])
	case "CONFIG":
		if n < 1 {
			return arity(cmd)
		}
		switch strings.ToUpper(a[0]) {
		case "SET":
			if n < 3 || n%2 != 1 {
				return arity(cmd)
			}
			for i := 1; i+1 < n; i += 2 {
				s.Config[a[i]] = a[i+1]
			}
			return okv()
		case "GET":
			if n < 2 {
				return arity(cmd)
			}
			v := resp.Array()
			for _, k := range a[1:] {
				v.A = append(v.A, bulk(k), bulk(s.Config[k]))
			}
			return v
		}
		return syntax()

	// ---- generic ----
	case "DEL":
		if n < 1 {
			return arity(cmd)
		}
		c := 0
		for _, k := range a {
			if _, ok := s.Keys[k]; ok {
				delete(s.Keys, k)
				c++
			}
		}
		return intv(c)
	case "EXISTS":
		if n < 1 {
			return arity(cmd)
		}
		c := 0
		for _, k := range a {
			if _, ok := s.Keys[k]; ok {
				c++
			}
		}
		return intv(c)
	case "TYPE":
		if n != 1 {
			return arity(cmd)
		}
		if e, ok := s.Keys[a[0]]; ok {
			return resp.Status(e.Kind.String())
		}
		return resp.Status("none")
	case "KEYS":
		if n != 1 {
			return arity(cmd)
		}
		var ks []string
		for k := range s.Keys {
			if globref.Match(a[0], k) {
				ks = append(ks, k)
			}
		}
		sort.Strings(ks)
		return strs(ks)
	case "RENAME", "RENAMENX":
		if n != 2 {
			return arity(cmd)
		}
		e, ok := s.Keys[a[0]]
		if !ok {
			return errv("no such key")
		}
		if cmd == "RENAMENX" {
			if _, ok := s.Keys[a[1]]; ok {
				return intv(0)
			}
		}
		if a[0] != a[1] {
			s.Keys[a[1]] = e
			delete(s.Keys, a[0])
		}
		if cmd == "RENAMENX" {
			return intv(1)
		}
		return okv()
	case "TTL":
		if n != 1 {
			return arity(cmd)
		}
		if e, ok := s.Keys[a[0]]; ok {
			if e.Vol {
				return intv(1) // "some positive number of seconds"
			}
			return intv(-1)
		}
		return intv(-2)
	case "EXPIRE":
		if n != 2 {
			return arity(cmd)
		}
		secs, good := ParseInt(a[1])
		if !good {
			return notInt()
		}
		e, ok := s.Keys[a[0]]
		if !ok {
			return intv(0)
		}
		if secs <= 0 {
			delete(s.Keys, a[0])
		} else {
			e.Vol = true
		}
		return intv(1)

	// ---- strings ----
	case "GET":
		if n != 1 {
			return arity(cmd)
		}
		e, ok, t := s.get(a[0], KString)
		if !ok {
			return nilv()
		}
		if !t {
			return wrongType()
		}
		return bulk(e.Str)
	case "SET":
		if n < 2 {
			return arity(cmd)
		}
		nx, xx, get, keepttl, expiry := false, false, false, false, false
		for i := 2; i < n; i++ {
			switch strings.ToUpper(a[i]) {
			case "NX":
				nx = true
			case "XX":
				xx = true
			case "GET":
				get = true
			case "KEEPTTL":
				keepttl = true
			case "EX", "PX", "EXAT", "PXAT":
				expiry = true
				i++
			default:
				return syntax()
			}
		}
		e, ok, t := s.get(a[0], KString)
		old := nilv()
		if ok && t {
			old = bulk(e.Str)
		}
		if get && ok && !t {
			return wrongType()
		}
		if (nx && ok) || (xx && !ok) {
			if get {
				return old
			}
			return nilv()
		}
		s.Keys[a[0]] = &Entry{Kind: KString, Str: a[1], Vol: expiry || (keepttl && ok && e.Vol)}
		if get {
			return old
		}
		return okv()
	case "SETNX":
		if n != 2 {
			return arity(cmd)
		}
		if _, ok := s.Keys[a[0]]; ok {
			return intv(0)
		}
		s.Keys[a[0]] = &Entry{Kind: KString, Str: a[1]}
		return intv(1)
	case "SETEX":
		if n != 3 {
			return arity(cmd)
		}
		if v, ok := ParseInt(a[1]); !ok || v < 1 {
			return errv("invalid expire time in 'setex' command")
		}
		s.Keys[a[0]] = &Entry{Kind: KString, Str: a[2], Vol: true}
		return okv()
	case "GETSET":
		if n != 2 {
			return arity(cmd)
		}
		e, ok, t := s.get(a[0], KString)
		if ok && !t {
			return wrongType()
		}
		old := nilv()
		if ok {
			old = bulk(e.Str)
		}
		s.Keys[a[0]] = &Entry{Kind: KString, Str: a[1]}
		return old
	case "MSET", "MSETNX":
		if n < 2 || n%2 != 0 {
			return arity(cmd)
		}
		if cmd == "MSETNX" {
			for i := 0; i < n; i += 2 {
				if _, ok := s.Keys[a[i]]; ok {
					return intv(0)
				}
			}
		}
		for i := 0; i < n; i += 2 {
			s.Keys[a[i]] = &Entry{Kind: KString, Str: a[i+1]}
		}
		if cmd == "MSETNX" {
			return intv(1)
		}
		return okv()
	case "MGET":
		if n < 1 {
			return arity(cmd)
		}
		v := resp.Array()
		for _, k := range a {
			e, ok, t := s.get(k, KString)
			if ok && t {
				v.A = append(v.A, bulk(e.Str))
			} else {
				v.A = append(v.A, nilv())
			}
		}
		return v
	case "APPEND":
		if n != 2 {
			return arity(cmd)
		}
		e, ok, t := s.get(a[0], KString)
		if ok && !t {
			return wrongType()
		}
		if !ok {
			e, _ = s.ensure(a[0], KString)
		}
		e.Str += a[1]
		return intv(len(e.Str))
	case "STRLEN":
		if n != 1 {
			return arity(cmd)
		}
		e, ok, t := s.get(a[0], KString)
		if !ok {
			return intv(0)
		}
		if !t {
			return wrongType()
		}
		return intv(len(e.Str))
	case "INCR", "DECR", "INCRBY", "DECRBY":
		want := 1
		if cmd == "INCRBY" || cmd == "DECRBY" {
			want = 2
		}
		if n != want {
			return arity(cmd)
		}
		delta := int64(1)
		if want == 2 {
			d, ok := ParseInt(a[1])
			if !ok {
				return notInt()
			}
			delta = d
		}
		if cmd == "DECR" || cmd == "DECRBY" {
			if delta == math.MinInt64 {
				return errv("decrement would overflow")
			}
			delta = -delta
		}
		e, ok, t := s.get(a[0], KString)
		if ok && !t {
			return wrongType()
		}
		cur := int64(0)
		if ok {
			c, good := ParseInt(e.Str)
			if !good {
				return notInt()
			}
			cur = c
		}
		if (delta > 0 && cur > math.MaxInt64-delta) || (delta < 0 && cur < math.MinInt64-delta) {
			return errv("increment or decrement would overflow")
		}
		cur += delta
		s.Keys[a[0]] = &Entry{Kind: KString, Str: strconv.FormatInt(cur, 10), Vol: ok && e.Vol} // a counter keeps its time to live
		return resp.Int(cur)
	case "GETRANGE", "SUBSTR":
		if n != 3 {
			return arity(cmd)
		}
		st, ok1 := ParseInt(a[1])
		en, ok2 := ParseInt(a[2])
		if !ok1 || !ok2 {
			return notInt()
		}
		e, ok, t := s.get(a[0], KString)
		if ok && !t {
			return wrongType()
		}
		str := ""
		if ok {
			str = e.Str
		}
		l := int64(len(str))
		if st < 0 && en < 0 && st > en {
			return bulk("")
		}
		if st < 0 {
			st += l
		}
		if en < 0 {
			en += l
		}
		if st < 0 {
			st = 0
		}
		if en < 0 {
			en = 0
		}
		if en >= l {
			en = l - 1
		}
		if l == 0 || st > en {
			return bulk("")
		}
		return bulk(str[st : en+1])

	// ---- hashes ----
	case "HSET", "HSETNX":
		if n != 3 {
			return arity(cmd)
		}
		e, t := s.ensure(a[0], KHash)
		if !t {
			return wrongType()
		}
		_, had := e.Hash[a[1]]
		if cmd == "HSETNX" && had {
			return intv(0)
		}
		e.Hash[a[1]] = a[2]
		if had {
			return intv(0)
		}
		return intv(1)
	case "HMSET":
		if n < 3 || n%2 != 1 {
			return arity(cmd)
		}
		e, t := s.ensure(a[0], KHash)
		if !t {
			return wrongType()
		}
		for i := 1; i+1 < n; i += 2 {
			e.Hash[a[i]] = a[i+1]
		}
		return okv()
	case "HGET", "HEXISTS", "HSTRLEN":
		if n != 2 {
			return arity(cmd)
		}
		e, ok, t := s.get(a[0], KHash)
		if ok && !t {
			return wrongType()
		}
		v, has := "", false
		if ok {
			v, has = e.Hash[a[1]]
		}
		switch cmd {
		case "HGET":
			if !has {
				return nilv()
			}
			return bulk(v)
		case "HEXISTS":
			if has {
				return intv(1)
			}
			return intv(0)
		}
		return intv(len(v))
	case "HMGET":
		if n < 2 {
			return arity(cmd)
		}
		e, ok, t := s.get(a[0], KHash)
		if ok && !t {
			return wrongType()
		}
		out := resp.Array()
		for _, f := range a[1:] {
			if ok {
				if v, has := e.Hash[f]; has {
					out.A = append(out.A, bulk(v))
					continue
				}
			}
			out.A = append(out.A, nilv())
		}
		return out
	case "HDEL":
		if n < 2 {
			return arity(cmd)
		}
		e, ok, t := s.get(a[0], KHash)
		if !ok {
			return intv(0)
		}
		if !t {
			return wrongType()
		}
		c := 0
		for _, f := range a[1:] {
			if _, has := e.Hash[f]; has {
				delete(e.Hash, f)
				c++
			}
		}
		s.dropIfEmpty(a[0])
		return intv(c)
	case "HGETALL", "HKEYS", "HVALS", "HLEN":
		if n != 1 {
			return arity(cmd)
		}
		e, ok, t := s.get(a[0], KHash)
		if ok && !t {
			return wrongType()
		}
		var fs []string
		if ok {
			for f := range e.Hash {
				fs = append(fs, f)
			}
		}
		sort.Strings(fs)
		if cmd == "HLEN" {
			return intv(len(fs))
		}
		out := resp.Array()
		for _, f := range fs {
			if cmd != "HVALS" {
				out.A = append(out.A, bulk(f))
			}
			if cmd != "HKEYS" {
				out.A = append(out.A, bulk(e.Hash[f]))
			}
		}
		return out

	// ---- lists ----
	case "LPUSH", "RPUSH", "LPUSHX", "RPUSHX":
		if n < 2 {
			return arity(cmd)
		}
		x := strings.HasSuffix(cmd, "X")
		e, ok, t := s.get(a[0], KList)
		if ok && !t {
			return wrongType()
		}
		if !ok {
			if x {
				return intv(0)
			}
			e, _ = s.ensure(a[0], KList)
		}
		for _, el := range a[1:] {
			if cmd[0] == 'L' {
				e.List = append([]string{el}, e.List...)
			} else {
				e.List = append(e.List, el)
			}
		}
		return intv(len(e.List))
	case "LPOP", "RPOP":
		if n < 1 || n > 2 {
			return arity(cmd)
		}
		cnt := int64(-1)
		if n == 2 {
			c, ok := ParseInt(a[1])
			if !ok || c < 0 {
				return errv("value is out of range, must be positive")
			}
			cnt = c
		}
		e, ok, t := s.get(a[0], KList)
		if ok && !t {
			return wrongType()
		}
		if !ok {
			if cnt >= 0 {
				return resp.Value{K: '*', Null: true}
			}
			return nilv()
		}
		take := func() string {
			var v string
			if cmd == "LPOP" {
				v = e.List[0]
				e.List = e.List[1:]
			} else {
				v = e.List[len(e.List)-1]
				e.List = e.List[:len(e.List)-1]
			}
			return v
		}
		if cnt < 0 {
			v := take()
			s.dropIfEmpty(a[0])
			return bulk(v)
		}
		out := resp.Array()
		for i := int64(0); i < cnt && len(e.List) > 0; i++ {
			out.A = append(out.A, bulk(take()))
		}
		s.dropIfEmpty(a[0])
		return out
	case "LLEN":
		if n != 1 {
			return arity(cmd)
		}
		e, ok, t := s.get(a[0], KList)
		if ok && !t {
			return wrongType()
		}
		if !ok {
			return intv(0)
		}
		return intv(len(e.List))
	case "LINDEX":
		if n != 2 {
			return arity(cmd)
		}
		i, good := ParseInt(a[1])
		if !good {
			return notInt()
		}
		e, ok, t := s.get(a[0], KList)
		if ok && !t {
			return wrongType()
		}
		if !ok {
			return nilv()
		}
		if i < 0 {
			i += int64(len(e.List))
		}
		if i < 0 || i >= int64(len(e.List)) {
			return nilv()
		}
		return bulk(e.List[i])
	case "LRANGE":
		if n != 3 {
			return arity(cmd)
		}
		st, ok1 := ParseInt(a[1])
		en, ok2 := ParseInt(a[2])
		if !ok1 || !ok2 {
			return notInt()
		}
		e, ok, t := s.get(a[0], KList)
		if ok && !t {
			return wrongType()
		}
		if !ok {
			return resp.Array()
		}
		lo, hi, nonEmpty := clampRange(st, en, len(e.List))
		if !nonEmpty {
			return resp.Array()
		}
		return strs(e.List[lo : hi+1])

	// ---- sets ----
	case "SADD", "SREM":
		if n < 2 {
			return arity(cmd)
		}
		if cmd == "SADD" {
			e, t := s.ensure(a[0], KSet)
			if !t {
				return wrongType()
			}
			c := 0
			for _, m := range a[1:] {
				if !e.Set[m] {
					e.Set[m] = true
					c++
				}
			}
			return intv(c)
		}
		e, ok, t := s.get(a[0], KSet)
		if ok && !t {
			return wrongType()
		}
		if !ok {
			return intv(0)
		}
		c := 0
		for _, m := range a[1:] {
			if e.Set[m] {
				delete(e.Set, m)
				c++
			}
		}
		s.dropIfEmpty(a[0])
		return intv(c)
	case "SMEMBERS", "SCARD":
		if n != 1 {
			return arity(cmd)
		}
		e, ok, t := s.get(a[0], KSet)
		if ok && !t {
			return wrongType()
		}
		var ms []string
		if ok {
			for m := range e.Set {
				ms = append(ms, m)
			}
		}
		sort.Strings(ms)
		if cmd == "SCARD" {
			return intv(len(ms))
		}
		return strs(ms)
	case "SISMEMBER":
		if n != 2 {
			return arity(cmd)
		}
		e, ok, t := s.get(a[0], KSet)
		if ok && !t {
			return wrongType()
		}
		if ok && e.Set[a[1]] {
			return intv(1)
		}
		return intv(0)

	// ---- sorted sets ----
	case "ZADD":
		if n < 3 {
			return arity(cmd)
		}
		i := 1
		nx, xx, gt, lt, ch, incr := false, false, false, false, false, false
	flags:
		for ; i < n; i++ {
			switch strings.ToUpper(a[i]) {
			case "NX":
				nx = true
			case "XX":
				xx = true
			case "GT":
				gt = true
			case "LT":
				lt = true
			case "CH":
				ch = true
			case "INCR":
				incr = true
			default:
				break flags
			}
		}
		rest := a[i:]
		if len(rest) == 0 || len(rest)%2 != 0 {
			return syntax()
		}
		if (nx && xx) || (gt && lt) || (nx && (gt || lt)) {
			return errv("XX and NX options at the same time are not compatible")
		}
		if incr && len(rest) != 2 {
			return errv("INCR option supports a single increment-element pair")
		}
		scores := make([]float64, len(rest)/2)
		for j := 0; j < len(rest); j += 2 {
			f, ok := parseFloat(rest[j])
			if !ok {
				return notFloat()
			}
			scores[j/2] = f
		}
		e, ok, t := s.get(a[0], KZSet)
		if ok && !t {
			return wrongType()
		}
		if !ok {
			if xx {
				if incr {
					return nilv()
				}
				return intv(0)
			}
			e, _ = s.ensure(a[0], KZSet)
		}
		added, changed := 0, 0
		var incrResult resp.Value = nilv()
		for j := 0; j < len(rest); j += 2 {
			sc, m := scores[j/2], rest[j+1]
			cur, has := e.ZSet[m]
			if has {
				if nx {
					continue
				}
				ns := sc
				if incr {
					ns = cur + sc
					if math.IsNaN(ns) {
						return errv("resulting score is not a number (NaN)")
					}
				}
				if (gt && !(ns > cur)) || (lt && !(ns < cur)) {
					continue
				}
				if ns != cur {
					e.ZSet[m] = ns
					changed++
				}
				incrResult = bulk(FormatScore(ns))
			} else {
				if xx {
					continue
				}
				e.ZSet[m] = sc
				added++
				incrResult = bulk(FormatScore(sc))
			}
		}
		s.dropIfEmpty(a[0])
		if incr {
			return incrResult
		}
		if ch {
			return intv(added + changed)
		}
		return intv(added)
	case "ZINCRBY":
		if n != 3 {
			return arity(cmd)
		}
		inc, ok := parseFloat(a[1])
		if !ok {
			return notFloat()
		}
		e, t := s.ensure(a[0], KZSet)
		if !t {
			return wrongType()
		}
		ns := e.ZSet[a[2]] + inc
		if math.IsNaN(ns) {
			s.dropIfEmpty(a[0])
			return errv("resulting score is not a number (NaN)")
		}
		e.ZSet[a[2]] = ns
		return bulk(FormatScore(ns))
	case "ZSCORE":
		if n != 2 {
			return arity(cmd)
		}
		e, ok, t := s.get(a[0], KZSet)
		if ok && !t {
			return wrongType()
		}
		if ok {
			if sc, has := e.ZSet[a[1]]; has {
				return bulk(FormatScore(sc))
			}
		}
		return nilv()
	case "ZREM":
		if n < 2 {
			return arity(cmd)
		}
		e, ok, t := s.get(a[0], KZSet)
		if ok && !t {
			return wrongType()
		}
		if !ok {
			return intv(0)
		}
		c := 0
		for _, m := range a[1:] {
			if _, has := e.ZSet[m]; has {
				delete(e.ZSet, m)
				c++
			}
		}
		s.dropIfEmpty(a[0])
		return intv(c)
	case "ZCARD":
		if n != 1 {
			return arity(cmd)
		}
		e, ok, t := s.get(a[0], KZSet)
		if ok && !t {
			return wrongType()
		}
		if !ok {
			return intv(0)
		}
		return intv(len(e.ZSet))
	case "ZRANGE", "ZREVRANGE", "ZRANGEBYSCORE", "ZREVRANGEBYSCORE":
		if n < 3 {
			return arity(cmd)
		}
		withScores, byScore, rev, hasLimit := false, cmd == "ZRANGEBYSCORE" || cmd == "ZREVRANGEBYSCORE", cmd == "ZREVRANGE" || cmd == "ZREVRANGEBYSCORE", false
		var off, cnt int64 = 0, -1
		for i := 3; i < n; i++ {
			switch strings.ToUpper(a[i]) {
			case "WITHSCORES":
				withScores = true
			case "BYSCORE":
				if cmd != "ZRANGE" {
					return syntax()
				}
				byScore = true
			case "REV":
				if cmd != "ZRANGE" {
					return syntax()
				}
				rev = true
			case "LIMIT":
				if i+2 >= n {
					return syntax()
				}
				o, ok1 := ParseInt(a[i+1])
				c, ok2 := ParseInt(a[i+2])
				if !ok1 || !ok2 {
					return notInt()
				}
				off, cnt, hasLimit = o, c, true
				i += 2
			default:
				return syntax()
			}
		}
		if hasLimit && !byScore {
			return errv("syntax error, LIMIT is only supported in combination with either BYSCORE or BYLEX")
		}
		e, ok, t := s.get(a[0], KZSet)
		if ok && !t {
			return wrongType()
		}
		if byScore {
			lo, hi := a[1], a[2]
			if rev {
				lo, hi = a[2], a[1] // reverse forms take max first
			}
			bl, ok1 := parseBound(lo)
			bh, ok2 := parseBound(hi)
			if !ok1 || !ok2 {
				return errv("min or max is not a float")
			}
			if !ok {
				return resp.Array()
			}
			var sel []zm
			for _, m := range sortedZ(e) {
				if m.s < bl.v || (bl.excl && m.s == bl.v) {
					continue
				}
				if m.s > bh.v || (bh.excl && m.s == bh.v) {
					continue
				}
				sel = append(sel, m)
			}
			if rev {
				sel = reverseZ(sel)
			}
			if hasLimit {
				sel = limit(sel, off, cnt)
			}
			return zreply(sel, withScores)
		}
		st, ok1 := ParseInt(a[1])
		en, ok2 := ParseInt(a[2])
		if !ok1 || !ok2 {
			return notInt()
		}
		if !ok {
			return resp.Array()
		}
		all := sortedZ(e)
		if rev {
			all = reverseZ(all)
		}
		lo, hi, nonEmpty := clampRange(st, en, len(all))
		if !nonEmpty {
			return resp.Array()
		}
		return zreply(all[lo:hi+1], withScores)
	}
	return errv("unknown command '" + argv[0] + "'")
}

// Dump renders the whole state canonically (for state comparison).
func (s *State) Dump() map[string]string {
	out := map[string]string{}
	defer func() {
		for k, e := range s.Keys {
			if e.Vol {
				out[k] += " (has a time to live)"
			}
		}
	}()
	for k, e := range s.Keys {
		switch e.Kind {
		case KString:
			out[k] = "string:" + strconv.Quote(e.Str)
		case KHash:
			var fs []string
			for f, v := range e.Hash {
				fs = append(fs, strconv.Quote(f)+"="+strconv.Quote(v))
			}
			sort.Strings(fs)
			out[k] = "hash:" + strings.Join(fs, ",")
		case KList:
			var es []string
			for _, v := range e.List {
				es = append(es, strconv.Quote(v))
			}
			out[k] = "list:" + strings.Join(es, ",")
		case KSet:
			var ms []string
			for m := range e.Set {
				ms = append(ms, strconv.Quote(m))
			}
			sort.Strings(ms)
			out[k] = "set:" + strings.Join(ms, ",")
		case KZSet:
			var ms []string
			for _, m := range sortedZ(e) {
				ms = append(ms, strconv.Quote(m.m)+"@"+FormatScore(m.s))
			}
			out[k] = "zset:" + strings.Join(ms, ",")
		}
	}
	return out
}
